#!/bin/bash
# usage: tools/try_seed.sh <seed_dir> <PROPERTY> [--only regex]   -- applies the seeded change to /repo, runs the check, reverts
set -u
seed=$1; pid=$2; shift 2
cd /repo || exit 2
git diff --quiet || { echo "/repo has uncommitted changes"; exit 2; }
git apply "$seed/patch.diff" || { echo "patch does not apply"; exit 2; }
cd /verif
./check $pid --no-evidence "$@" > /var/tmp/vt/seedrun.log 2>&1
rc=$?
git -C /repo checkout -- .
echo "exit=$rc"; grep -c "^VIOLATION" /var/tmp/vt/seedrun.log; grep "violated:" /var/tmp/vt/seedrun.log | sed 's/real build.*//' | cut -c1-260 | sort | uniq | head -8; grep "^INCONCL" /var/tmp/vt/seedrun.log | cut -c1-200 | head -3; grep "tier=" /var/tmp/vt/seedrun.log
