// Harness API for shim/*.cpp (C++11).  The shim is compiled by clang to IR and translated together with
// libtins for CBMC, and compiled by g++ (ASan+UBSan) against the real sources for replay / translation validation.
#ifndef VP_H
#define VP_H
#include <stdint.h>
extern "C" {
uint8_t vp_u8(void); uint16_t vp_u16(void); uint32_t vp_u32(void); uint64_t vp_u64(void);
void vp_assume(uint32_t c);
void vp_assert(uint32_t c, const char* msg);   // msg must be a string literal
void vp_observe(uint64_t v);                   // adds a value to the differential transcript (no-op under CBMC)
void vp_witness(void);
void vp_accept(void);                         // second witness: marks the accepting path (expected reachable iff Inst.accept)                         // reachability witness: expected to FAIL under CBMC
uint8_t* vp_buf(uint32_t n);                   // malloc(n) exactly, symbolic contents
uint8_t* vp_alloc(uint32_t n);
void vp_free(uint8_t* p);
uint32_t vp_param(uint32_t i);                 // concrete per-instance parameter (buffer length, k, ...)
int vp_native_mode(void);
uint32_t vp_r_ok(const uint8_t* p, uint32_t n);       // range readable (CBMC __CPROVER_r_ok; 1 natively)
uint32_t vp_w_ok(uint8_t* p, uint32_t n);
uint32_t vp_choice(void);
uint64_t vp_globals_size(void);                       // C18: size and byte snapshot of every mutable global of the translated unit
void vp_globals_snapshot(uint8_t* dst);                             // nondeterministic choice of a stub (not part of the replayed input stream)
}
#define H(name) extern "C" void name(void)
#endif
