/* Shared prelude of every translated unit and of rt.c.
 * VP_NATIVE: the generated C is compiled with gcc for translation validation (engine/rt.c gives
 * concrete bodies); otherwise the file is read by CBMC. */
#ifndef VP_RT_H
#define VP_RT_H
#include <stdint.h>
#include <stddef.h>
#ifdef VP_UNIT
/* translated units declare every external function themselves (with char* pointers); keep libc headers out */
void* malloc(size_t); void free(void*); void* memcpy(void*, const void*, size_t); void* memmove(void*, const void*, size_t);
void* memset(void*, int, size_t); int memcmp(const void*, const void*, size_t); size_t strlen(const char*); void abort(void);
double round(double); double log2(double); double fabs(double);
int bcmp(const void*, const void*, size_t); void* memchr(const void*, int, size_t); int strcmp(const char*, const char*);
#else
#include <string.h>
#include <stdlib.h>
#endif
/* byte loops instead of CBMC's array-level memcpy model: a variable-size copy into part of a struct otherwise destroys field sensitivity */
char* vp_memcpy(char* d, char* s, uint64_t n); char* vp_memmove(char* d, char* s, uint64_t n); char* vp_memset(char* d, uint8_t c, uint64_t n);
extern int __vp_exc; extern char* __vp_exc_obj; extern char* __vp_exc_ti;
#ifdef VP_NATIVE
void vp_native_model_assert(int c, const char* m);
void vp_native_assert(int c, const char* m);
void vp_native_assume(int c);
void vp_native_model_assume(int c);
#define __CPROVER_assert(c, m) vp_native_model_assert(!!(c), m)
#define __CPROVER_assume(c) vp_native_model_assume(!!(c))
#define VP_ASSERT(c, m) vp_native_assert(!!(c), m)
#else
#define VP_ASSERT(c, m) __CPROVER_assert(c, m)
#endif
/* C++ pointer difference (null - null is 0) */
#define __vp_pdiff(a, b) ({ char* a_ = (a); char* b_ = (b); a_ == b_ ? (uint64_t)0 : (uint64_t)(a_ - b_); })
#ifdef VP_NATIVE
#define __vp_pcmp(a, op, b) ((a) op (b))
#else
#define __vp_pcmp(a, op, b) ({ char* a_ = (a); char* b_ = (b); __CPROVER_same_object(a_, b_) ? ((int64_t)__CPROVER_POINTER_OFFSET(a_) op (int64_t)__CPROVER_POINTER_OFFSET(b_)) : (a_ op b_); })
#endif
static inline char* __vp_new_typed(unsigned long n, char* p) { __CPROVER_assume(p != 0); return p; }
#endif
