// Contract stubs for "construct the inner layer" (DESIGN 2.3/3): the layer under verification hands a (pointer,size) range
// to a dispatcher or to another layer's from-buffer constructor; the stub asserts that the range lies inside a readable
// object (so, by induction on nesting depth, the whole parse stays inside the caller's buffer) and then nondeterministically
// fails as malformed_packet or yields a minimal valid layer object.  The behaviour is chosen per instance by the concrete
// parameter P1 (0: 'no match' -> null where the real function may return null, 1: malformed_packet, 2: a layer object).
#ifndef VP_STUBS_H
#define VP_STUBS_H
#include "vp.h"
#include <new>
#include <tins/pdu.h>
#include <tins/rawpdu.h>
#include <tins/exceptions.h>
#include <tins/constants.h>

namespace vpstub {
// minimal layer object, no larger than any libtins layer class (placement-constructed inside the caller's allocation)
class StubPDU : public Tins::PDU {
public:
    StubPDU() {}
    uint32_t header_size() const { return 0; }
    StubPDU* clone() const { return new StubPDU(*this); }
    PDUType pdu_type() const { return Tins::PDU::RAW; }
    void write_serialization(uint8_t*, uint32_t) {}
};
static inline void contract(const uint8_t* buffer, uint32_t size) {
    vp_assert(vp_r_ok(buffer, size), "range handed to the inner layer lies inside the caller's buffer");
}
}

extern "C" {
// (buffer,size) constructor of another layer class
void vp_stub_inner_ctor(void* self, const uint8_t* buffer, uint32_t size) {
    vpstub::contract(buffer, size);
    if (vp_choice() == 1) throw Tins::malformed_packet();
    new (self) vpstub::StubPDU();
}
// Internals::pdu_from_flag(Constants::Ethernet::e | Constants::IP::e | PDU::PDUType, ...) and pdu_from_dlt_flag
Tins::PDU* vp_stub_dispatch4(uint32_t flag, const uint8_t* buffer, uint32_t size, bool rawpdu_on_no_match) {
    (void)flag;
    vpstub::contract(buffer, size);
    uint32_t c = vp_choice();
    if (c == 1) throw Tins::malformed_packet();
    if (c == 0 && !rawpdu_on_no_match) return 0;
    return new vpstub::StubPDU();
}
// Dot11::from_bytes / EAPOL::from_bytes
Tins::PDU* vp_stub_from_bytes(const uint8_t* buffer, uint32_t size) {
    vpstub::contract(buffer, size);
    if (vp_choice() == 1) throw Tins::malformed_packet();
    return new vpstub::StubPDU();
}
// Internals::allocate<T>(id, buffer, size): user-registered allocators; registry assumed empty
Tins::PDU* vp_stub_allocate16(uint16_t id, const uint8_t* buffer, uint32_t size) { (void)id; vpstub::contract(buffer, size); return 0; }
Tins::PDU* vp_stub_allocate8(uint8_t id, const uint8_t* buffer, uint32_t size) { (void)id; vpstub::contract(buffer, size); return 0; }
Tins::PDU* vp_stub_dispatch3(uint32_t flag, const uint8_t* buffer, uint32_t size) {
    (void)flag;
    vpstub::contract(buffer, size);
    uint32_t c = vp_choice();
    if (c == 1) throw Tins::malformed_packet();
    if (c == 0) return 0;
    return new vpstub::StubPDU();
}
// append model for std::vector<PDUOption<..>>::push_back / emplace_back(T&&): the element was built by the real PDUOption
// constructor (which really copies the option bytes); the container stores nothing.
uint32_t vp_opt_count;
void vp_stub_opt_append(void* vec, void* opt) { (void)vec; (void)opt; vp_opt_count++; }
// TCP: options_.emplace_back(type, first, last) / emplace_back(type, 0); IP: emplace_back(option_identifier)
void vp_stub_tcp_emplace3(void* vec, const uint32_t* type, const uint8_t* const* first, const uint8_t* const* last);
void vp_stub_tcp_emplace2(void* vec, const uint32_t* type, const int* len);
void vp_stub_opt_reserve(void* vec, uint64_t n) { (void)vec; (void)n; }   // capacity is not observable; the container stays empty
}
#endif
