from driver import Unit, Inst
def units(tier): return [Unit('c16', shim='c16.cpp', ctors=False)]
def instances(tier): return [Inst('c16', 'h_c16_v6_iter', params=(1,), unwind=18, timeout=100)]
