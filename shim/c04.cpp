// C04: what is set through the API is what a parser of the wire bytes gets back - typed TCP / IP options through the real option vector
#include "vp.h"
#include <tins/tcp.h>
#include <tins/ip.h>
#include <tins/icmpv6.h>
#include <tins/dhcp.h>
#include <tins/ipv6.h>
#include <vector>
#include <tins/rawpdu.h>
#include <tins/exceptions.h>
using namespace Tins;

H(h_c04_tcp_typed_getters) {
    TCP t(vp_u16(), vp_u16());
    uint16_t mss = vp_u16(); uint8_t ws = vp_u8(); uint32_t tv = vp_u32(), te = vp_u32();
    t.mss(mss);
    vp_assert(t.mss() == mss, "TCP: mss() returns the value set");
    t.winscale(ws);
    vp_assert(t.winscale() == ws && t.mss() == mss, "TCP: winscale() returns the value set and mss is kept");
    t.sack_permitted();
    t.timestamp(tv, te);
    std::pair<uint32_t, uint32_t> ts = t.timestamp();
    vp_assert(ts.first == tv && ts.second == te, "TCP: timestamp() returns the values set");
    vp_assert(t.has_sack_permitted() && t.winscale() == ws && t.mss() == mss, "TCP: earlier options are kept when later ones are added");
    vp_assert(t.search_option(TCP::SACK) == 0, "TCP: an option that was never added is not found");
    vp_assert(t.remove_option(TCP::WSCALE), "TCP: removing a present option succeeds");
    vp_assert(t.search_option(TCP::WSCALE) == 0 && t.mss() == mss && t.has_sack_permitted(), "TCP: a removed option is gone, the others stay");
    vp_witness();
}
H(h_c04_tcp_wire) {
    TCP t(vp_u16(), vp_u16());
    uint16_t mss = vp_u16(); uint8_t ws = vp_u8();
    t.mss(mss); t.winscale(ws);
    uint8_t pl[2] = { vp_u8(), vp_u8() };
    t.inner_pdu(RawPDU(pl, 2));
    PDU::serialization_type out = t.serialize();
    vp_assert(out.size() == t.size(), "TCP: serialize() returns size() bytes");
    vp_assert(out.size() == 20 + 8 + 2, "TCP: MSS (4) + window scale (3) + padding (1) make a 28-byte header");
    TCP q(&out[0], (uint32_t)out.size());
    vp_assert(q.mss() == mss && q.winscale() == ws, "TCP: the typed options decode from the wire to the values set");
    vp_assert(q.sport() == t.sport() && q.dport() == t.dport(), "TCP: ports survive the wire");
    const RawPDU* r = q.find_pdu<RawPDU>();
    vp_assert(r != 0 && r->payload().size() == 2 && r->payload()[0] == pl[0] && r->payload()[1] == pl[1], "TCP: the payload survives the wire");
    vp_witness();
}

H(h_c04_tcp_sack_wire) {
    TCP t(vp_u16(), vp_u16());
    TCP::sack_type edges; edges.push_back(vp_u32()); edges.push_back(vp_u32());
    t.sack(edges);
    t.altchecksum(TCP::CHK_8FLETCHER);
    TCP::sack_type g = t.sack();
    vp_assert(g.size() == 2 && g[0] == edges[0] && g[1] == edges[1], "TCP: sack() returns the edges set");
    vp_assert(t.altchecksum() == TCP::CHK_8FLETCHER, "TCP: altchecksum() returns the value set");
    PDU::serialization_type out = t.serialize();
    vp_assert(out.size() == t.size(), "TCP: serialize() returns size() bytes");
    TCP q(&out[0], (uint32_t)out.size());
    TCP::sack_type h = q.sack();
    vp_assert(h.size() == 2 && h[0] == edges[0] && h[1] == edges[1] && q.altchecksum() == TCP::CHK_8FLETCHER, "TCP: SACK edges and alternate checksum decode from the wire to the values set");
    vp_witness();
}
H(h_c04_ip_wire) {
    uint32_t sa = vp_u32(), da = vp_u32();
    vp_assume(sa != 0);                                   // a zero source makes serialization look the outgoing interface up (environment)
    IP ip; ip.src_addr(IPv4Address(sa)); ip.dst_addr(IPv4Address(da));
    uint16_t sid = vp_u16();
    ip.stream_identifier(sid);
    ip.noop();
    vp_assert(ip.stream_identifier() == sid, "IP: stream_identifier() returns the value set");
    uint8_t pl[3] = { vp_u8(), vp_u8(), vp_u8() };
    ip.inner_pdu(RawPDU(pl, 3));
    ip.protocol(253);
    PDU::serialization_type out = ip.serialize();
    vp_assert(out.size() == ip.size() && out.size() == 20 + 8 + 3, "IP: stream id (4) + NOP (1) are padded to an 8-byte option area");
    vp_assert((out[0] & 0x0f) == 7, "IP: the header-length nibble counts the padded options");
    IP q(&out[0], (uint32_t)out.size());
    vp_assert(q.stream_identifier() == sid, "IP: the stream identifier decodes from the wire to the value set");
    vp_assert(q.src_addr() == ip.src_addr() && q.dst_addr() == ip.dst_addr(), "IP: addresses survive the wire");
    const RawPDU* r = q.find_pdu<RawPDU>();
    vp_assert(r != 0 && r->payload().size() == 3 && r->payload()[0] == pl[0] && r->payload()[2] == pl[2], "IP: the payload survives the wire");
    vp_witness();
}
H(h_c04_icmpv6_wire) {
    ICMPv6 icmp(ICMPv6::NEIGHBOUR_SOLICIT);
    uint8_t hw[6]; for (int i = 0; i < 6; ++i) hw[i] = vp_u8();
    icmp.source_link_layer_addr(HWAddress<6>(hw));
    uint16_t m1 = vp_u16(); uint32_t m2 = vp_u32();
    ICMPv6::mtu_type m(m1, m2);
    icmp.mtu(m);
    vp_assert(icmp.source_link_layer_addr() == HWAddress<6>(hw), "ICMPv6: source_link_layer_addr() returns the address set");
    vp_assert(icmp.mtu().first == m.first && icmp.mtu().second == m.second, "ICMPv6: mtu() returns the value set");
    PDU::serialization_type out = icmp.serialize();
    vp_assert(out.size() == icmp.size(), "ICMPv6: serialize() returns size() bytes");
    ICMPv6 q(&out[0], (uint32_t)out.size());
    vp_assert(q.source_link_layer_addr() == HWAddress<6>(hw) && q.mtu().first == m.first && q.mtu().second == m.second, "ICMPv6: typed options decode from the wire to the values set");
    vp_witness();
}
H(h_c04_dhcp_wire) {
    DHCP d;
    d.type(DHCP::REQUEST);
    uint32_t lt = vp_u32(), sid = vp_u32(), mask = vp_u32();
    d.lease_time(lt); d.server_identifier(IPv4Address(sid)); d.subnet_mask(IPv4Address(mask));
    d.end();
    vp_assert(d.type() == DHCP::REQUEST && d.lease_time() == lt && d.server_identifier() == IPv4Address(sid) && d.subnet_mask() == IPv4Address(mask), "DHCP: typed getters return the values set");
    PDU::serialization_type out = d.serialize();
    vp_assert(out.size() == d.size(), "DHCP: serialize() returns size() bytes");
    DHCP q(&out[0], (uint32_t)out.size());
    vp_assert(q.type() == DHCP::REQUEST && q.lease_time() == lt && q.server_identifier() == IPv4Address(sid) && q.subnet_mask() == IPv4Address(mask), "DHCP: typed options decode from the wire to the values set");
    vp_witness();
}


// removing an option keeps the others in their order (wire order and first-match getters depend on it)
H(h_c04_tcp_remove_order) {
    TCP t(vp_u16(), vp_u16());
    uint16_t mss = vp_u16(); uint8_t ws = vp_u8(); uint32_t a1 = vp_u32(), a2 = vp_u32(), b1 = vp_u32(), b2 = vp_u32();
    t.mss(mss); t.timestamp(a1, a2); t.winscale(ws); t.timestamp(b1, b2);
    vp_assert(t.remove_option(TCP::MSS), "TCP: removing the first option succeeds");
    const TCP::options_type& o = t.options();
    vp_assert(o.size() == 3 && o[0].option() == TCP::TSOPT && o[1].option() == TCP::WSCALE && o[2].option() == TCP::TSOPT, "TCP: the remaining options keep their order after a removal");
    std::pair<uint32_t, uint32_t> ts = t.timestamp();
    vp_assert(ts.first == a1 && ts.second == a2 && t.winscale() == ws, "TCP: after a removal the getters still return the first matching option");
    PDU::serialization_type out = t.serialize();
    vp_assert(out.size() == 20 + 24 && out[20] == TCP::TSOPT && out[30] == TCP::WSCALE && out[33] == TCP::TSOPT, "TCP: the wire order of the remaining options is their insertion order");
    TCP q(&out[0], (uint32_t)out.size());
    std::pair<uint32_t, uint32_t> tq = q.timestamp();
    vp_assert(tq.first == a1 && tq.second == a2 && q.winscale() == ws && q.search_option(TCP::MSS) == 0, "TCP: the parsed segment has the same options");
    vp_witness();
}
// IP security option: every field value, and an option area that is an exact multiple of four bytes ending in a multi-byte option
H(h_c04_ip_security_wire) {
    uint32_t sa = vp_u32(), da = vp_u32();
    vp_assume(sa != 0);
    IP ip; ip.src_addr(IPv4Address(sa)); ip.dst_addr(IPv4Address(da));
    uint16_t sec = vp_u16(), comp = vp_u16(), hr = vp_u16(); uint32_t tcc = vp_u32() & 0xffffff;
    ip.noop();
    ip.security(IP::security_type(sec, comp, hr, tcc));
    IP::security_type g = ip.security();
    vp_assert(g.security == sec && g.compartments == comp && g.handling_restrictions == hr && g.transmission_control == tcc, "IP: security() returns the values set");
    ip.protocol(253);
    PDU::serialization_type out = ip.serialize();
    vp_assert(out.size() == ip.size() && out.size() == 20 + 12, "IP: NOP (1) + security (11) fill a 12-byte option area exactly");
    IP q(&out[0], (uint32_t)out.size());
    IP::security_type h = q.security();
    vp_assert(h.security == sec && h.compartments == comp && h.handling_restrictions == hr && h.transmission_control == tcc, "IP: the security option decodes from the wire to the values set");
    vp_witness();
}
H(h_c04_ip_sid_only_wire) {
    uint32_t sa = vp_u32();
    vp_assume(sa != 0);
    IP ip; ip.src_addr(IPv4Address(sa));
    uint16_t sid = vp_u16();
    ip.stream_identifier(sid);
    ip.protocol(253);
    PDU::serialization_type out = ip.serialize();
    vp_assert(out.size() == 24, "IP: one 4-byte option needs no padding");
    IP q(&out[0], (uint32_t)out.size());
    vp_assert(q.stream_identifier() == sid, "IP: an option area without padding is parsed back");
    vp_witness();
}
