from driver import Unit, Inst
def units(tier): return [Unit('dbg', shim='dbg.cpp', ctors=False)]
def instances(tier): return [Inst('dbg', f, unwind=12, timeout=100, recursion=4) for f in ('h_dbg_1','h_dbg_2','h_dbg_3')]
