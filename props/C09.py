"""C09 - WEP / WPA2 decryption: memory safety on arbitrary protected-frame bodies (the part reachable by this encoding)."""
from driver import Unit, Inst
import C01
EXPLANATION = ('SessionKeys::decrypt_unicast -> ccmp_decrypt_unicast on a protected-frame body of every length 0..N with symbolic bytes, symbolic 802.11 header bits (to/from-DS, more-frag, order, '
               'fragment number, addresses), plain and QoS data frames, symbolic PTK; OpenSSL AES is a stub that checks its argument ranges and returns arbitrary blocks (so both MIC outcomes are '
               'explored); the decrypted bytes are parsed by the real SNAP constructor. CBMC checks every index expression.')
BOUNDS = {'quick': 'body length n in {0,1,7,8,15,16,17,24,31,32,33}', 'thorough': 'every n in 0..48'}
OUTSIDE = ('equality with an independent CCMP/TKIP/WEP implementation (AES is FFI; RC4 key schedules with symbolic keys and PBKDF2/HMAC are not decidable by bit-blasting here), TKIP and WEP paths, '
           'PTK derivation and every handshake history (RSNHandshakeCapturer / WPA2Decrypter maps): not decided')
ASSUMPTIONS = ['AES_set_encrypt_key / AES_encrypt: engine/rt.c stubs (argument ranges asserted, output arbitrary)']
NRAND = {'quick': 20, 'thorough': 100}
def units(tier):
    red = [p for p in C01.plan('quick') if p[0] == 'SNAP'][0][3]
    return [Unit('c09', shim='c09.cpp', redirect=red, ctors=False, differential=False)]
def instances(tier):
    ns = (0, 1, 7, 8, 15, 16, 17, 24, 31, 32, 33) if tier == 'quick' else range(49)
    out = []
    for n in ns:
        for f in ('h_c09_ccmp_safe', 'h_c09_ccmp_qos_safe'):
            for mode in (1, 2):
                out.append(Inst('c09', f, params=(n, mode), unwind=90, timeout=300, mem_gb=6, recursion=3, note='%d-byte protected body, SNAP inner-stub mode %d' % (n, mode)))
    return out
