"""C04 - what is set through the API is what a parser of the wire bytes gets back (typed TCP options through the real option vector)."""
from driver import Unit, Inst
EXPLANATION = ('TCP typed option setters/getters (mss, winscale, sack_permitted, timestamp), search/remove semantics and the serialize -> parse round trip of an API-built segment with two typed '
               'options and a 2-byte payload, on the real std::vector<PDUOption> (concrete option count, symbolic values).')
BOUNDS = {'quick': 'one TCP object, 4 typed options / 2 on the wire, all values symbolic', 'thorough': 'same'}
OUTSIDE = ('every other protocol\'s typed options (ICMPv6 ~30, DHCPv6 ~20, Dot11 management ~25, IP, DHCP, PPPoE tags, RTP), longer add/remove histories, options above the small-buffer threshold: not decided. Attempted and without verdict in 900 s: a TCP option of symbolic kind without data (the Fast Open shape of the C02 text) and IPv6 extension headers of 0..13 data bytes')
ASSUMPTIONS = []
FNS = ('h_c04_tcp_typed_getters', 'h_c04_tcp_wire', 'h_c04_tcp_sack_wire', 'h_c04_ip_wire', 'h_c04_icmpv6_wire', 'h_c04_dhcp_wire', 'h_c04_tcp_remove_order', 'h_c04_ip_security_wire', 'h_c04_ip_sid_only_wire')
NRAND = {'quick': 50, 'thorough': 300}
def units(tier):
    us = []
    for f in FNS:
        u = Unit('c04_' + f[6:], shim='c04.cpp', ctors=False); u.only_entries = [f]; us.append(u)
    return us
def instances(tier):
    return [Inst('c04_' + f[6:], f, params=p, unwind=20, unwindset={'vp_memcpy.0': 320, 'vp_memmove.0': 320, 'vp_memmove.1': 320, 'vp_memset.0': 320}, timeout=900, mem_gb=12, recursion=3) for f in FNS for p in ([(n,) for n in (0, 1, 5, 6, 7, 13)] if f == 'h_c04_ipv6_ext_header_wire' else [()])]
