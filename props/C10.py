"""C10 (spike) - DNS sections under editing."""
from driver import Unit, Inst
EXPLANATION = 'spike'; BOUNDS = {'quick': '', 'thorough': ''}; OUTSIDE = ''; ASSUMPTIONS = []; NRAND = {'quick': 5, 'thorough': 5}
def units(tier): return [Unit('c10', shim='c10.cpp', ctors=True)]
def instances(tier): return [Inst('c10', 'h_c10_sections', params=(m,), unwind=40, unwindset={'vp_memcpy.0': 80, 'vp_memmove.0': 80, 'vp_memmove.1': 80, 'vp_memset.0': 80}, timeout=600, mem_gb=10, recursion=3) for m in (0, 1)]
