"""C03 - re-serializing a parsed packet preserves it (shares units and generator with C02)."""
import C02
EXPLANATION = C02.EXPLANATION; BOUNDS = C02.BOUNDS; OUTSIDE = C02.OUTSIDE; ASSUMPTIONS = C02.ASSUMPTIONS; NRAND = C02.NRAND
def units(tier): return C02.units(tier, prefix='c03')
def instances(tier): return C02.instances(tier, prefix='c03', fn='h_c03_')
