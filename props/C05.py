"""C05 - fields libtins derives are correct on the wire (kernels: one's-complement sums, pseudo-headers, CRC-32)."""
import os
from driver import Unit, Inst
EXPLANATION = ('Checksum kernels of src/utils/checksum_utils.cpp executed on symbolic buffers of each length and compared with references written from RFC 1071 / IEEE 802.3 as a receiver '
               'computes them (big-endian words with end-around carry; bit-serial reflected CRC-32): sum_range, do_checksum, both pseudoheader_checksum overloads, crc32.')
BOUNDS = {'quick': 'sum_range: every length 0..16 incl. odd; crc32: lengths 0..4; IPv4 pseudo-header: all addresses/lengths/protocols (the IPv6 one, an 18-word sum equivalence, got no verdict from kissat in 1800 s and is not claimed)', 'thorough': 'sum_range 0..32, crc32 0..8'}
OUTSIDE = ('the per-layer serializers that call these kernels (checksum patch-back, length/offset/next-protocol fields, Ethernet padding) and libpcap filter agreement: not yet encoded; '
           'sums over more than the stated number of bytes (the accumulator is 32-bit: > 64 KiB of 0xffff words could overflow - argued, not checked)')
ASSUMPTIONS = []
NRAND = {'quick': 100, 'thorough': 1000}
def units(tier): return [Unit('c05k', shim='c05k.cpp', ctors=False)]
def instances(tier):
    q = tier == 'quick'
    out = [Inst('c05k', 'h_c05_sum_range', params=(n,), unwind=n + 3, timeout=(120 if q else 900), mem_gb=6, flags=['--sat-solver', 'cadical']) for n in range(0, 17 if q else 33)]
    out += [Inst('c05k', 'h_c05_crc32', params=(n,), unwind=12, unwindset={'vp_buf.0': n + 2}, timeout=(120 if q else 900), mem_gb=6, flags=['--sat-solver', 'cadical']) for n in range(0, 5 if q else 9)]
    out += [Inst('c05k', 'h_c05_pseudo_v4', unwind=16, timeout=300, mem_gb=6, flags=['--sat-solver', 'cadical'])]
    # the IPv6 pseudo-header (an 18-word ones'-complement sum equivalence) was tried with kissat: no verdict in 1800 s, so it is not part of either tier
    if os.environ.get('C05_PSEUDO_V6'): out += [Inst('c05k', 'h_c05_pseudo_v6', unwind=40, timeout=1800, mem_gb=8, flags=['--external-sat-solver', 'kissat'])]
    return out
