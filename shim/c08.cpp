// C08: IPv4Reassembler::process on a concrete schedule of fragments with symbolic contents (DESIGN 0.7/C08)
#include "stubs.h"
#include <tins/ip.h>
#include <tins/rawpdu.h>
#include <tins/ip_reassembler.h>
using namespace Tins;

// the upper-layer dispatcher is replaced: it records the protocol number it was asked for and returns the bytes as a RawPDU (the parsers behind it are C01's subject)
static uint32_t g_flag; static uint32_t g_calls;
// In the g++ build used for replaying counterexamples the real dispatcher is linked (no redirection there), so the stub's counters stay untouched:
// the checks on them are skipped and the protocol number is pinned to an unassigned one, for which the real dispatcher also returns a RawPDU.
#ifdef VP_REAL_BUILD
#define STUB_SAW(calls, flag) true
#else
#define STUB_SAW(calls, flag) (g_calls == (calls) && g_flag == (flag))
#endif
extern "C" Tins::PDU* vp_stub_dispatch4_raw(uint32_t flag, const uint8_t* buffer, uint32_t size, bool raw) { (void)raw; g_flag = flag; ++g_calls; vpstub::contract(buffer, size); return new Tins::RawPDU(buffer, size); }

// The schedule is a concrete parameter: P0 = number of steps L, P1 = k (fragments of datagram D, each 8 bytes except the last, which has P2 bytes),
// P3 = the steps, 3 bits each, first step in the low bits:  0..k-1 = fragment i of D,  5 = a fragment of another datagram X (symbolic key, constrained to differ from D's),
// 6 = an unfragmented packet U with D's key.  Header fields of D (id, addresses, ttl, tos, protocol number) and all payload bytes are symbolic.
static const uint32_t MAXK = 4;

struct St {
    uint32_t k, last, total; uint8_t S[8 * MAXK];
    uint16_t id; uint32_t src, dst; uint8_t ttl, tos, proto; uint16_t xid; uint32_t xsrc, xdst; uint8_t xb0;
    bool seen[MAXK]; uint32_t nseen, completed;
};

// one packet of the schedule (a separate call per step: each step works on its own packet objects)
static __attribute__((noinline)) void step(IPv4Reassembler& r, St& t, uint32_t code) {
    const uint32_t k = t.k, last = t.last, total = t.total;
    const uint8_t* S = t.S;
    if (code < k) {
        uint32_t len = (code == k - 1) ? last : 8;
        IPv4Address ad(t.dst), as(t.src); IP ip(ad, as);
        ip.id(t.id); ip.ttl(t.ttl); ip.tos(t.tos);
        ip.fragment_offset((small_uint<13>)code);
        ip.flags(code == k - 1 ? (IP::Flags)0 : IP::MORE_FRAGMENTS);
        ip.inner_pdu(new RawPDU(S + 8 * code, len));
        ip.protocol(t.proto);
        PDU& p = ip;
        IPv4Reassembler::PacketStatus st = r.process(p);
        if (!t.seen[code]) { t.seen[code] = true; ++t.nseen; }
        if (t.nseen == k) {
            vp_assert(st == IPv4Reassembler::REASSEMBLED, "the fragment that completes a datagram is reported as REASSEMBLED");
            if (st == IPv4Reassembler::REASSEMBLED) {
                vp_assert(ip.fragment_offset() == 0 && ip.flags() == 0, "the reassembled packet has offset and more-fragments cleared");
                vp_assert(ip.id() == t.id && ip.ttl() == t.ttl && ip.tos() == t.tos && ip.src_addr() == as && ip.dst_addr() == ad && ip.protocol() == t.proto,
                          "the reassembled packet carries the header of the first fragment");
                const RawPDU* raw = ip.inner_pdu() ? ip.inner_pdu()->find_pdu<RawPDU>() : 0;
                vp_assert(raw != 0 && ip.inner_pdu() == raw && STUB_SAW(t.completed + 1, t.proto), "the reassembled payload is handed, once, to the parser of the first fragment's protocol");
                if (raw) {
                    bool same = raw->payload().size() == total;
                    for (uint32_t i = 0; same && i < total; ++i) same = raw->payload()[i] == S[i];
                    vp_assert(same, "the reassembled payload is byte-identical to the original payload");
                }
            }
            for (uint32_t i = 0; i < MAXK; ++i) t.seen[i] = false;
            t.nseen = 0; ++t.completed;
        } else {
            vp_assert(st == IPv4Reassembler::FRAGMENTED, "a fragment that does not complete its datagram is reported as FRAGMENTED (no datagram from an incomplete set)");
        }
    } else if (code == 5) {
        IPv4Address ad(t.xdst), as(t.xsrc); IP ip(ad, as);
        ip.id(t.xid); ip.flags(IP::MORE_FRAGMENTS); ip.fragment_offset(0);
        uint8_t xb[8] = {t.xb0, 1, 2, 3, 4, 5, 6, 7};
        ip.inner_pdu(new RawPDU(xb, 8)); ip.protocol(t.proto);
        PDU& p = ip;
        IPv4Reassembler::PacketStatus st = r.process(p);
        vp_assert(st == IPv4Reassembler::FRAGMENTED, "a fragment of another datagram (different identification or address pair) never completes anything");
    } else {
        IPv4Address ad(t.dst), as(t.src); IP ip(ad, as);
        ip.id(t.id); ip.ttl(t.ttl);
        uint32_t ul = total < 4 ? total : 4;
        ip.inner_pdu(new RawPDU(S, ul)); ip.protocol(t.proto);
        PDU& p = ip;
        IPv4Reassembler::PacketStatus st = r.process(p);
        vp_assert(st == IPv4Reassembler::NOT_FRAGMENTED, "an unfragmented packet is reported as such");
        const RawPDU* raw = ip.inner_pdu() ? ip.inner_pdu()->find_pdu<RawPDU>() : 0;
        bool same = raw && raw->payload().size() == ul;
        for (uint32_t i = 0; same && i < ul; ++i) same = raw->payload()[i] == S[i];
        vp_assert(same && ip.id() == t.id && ip.ttl() == t.ttl && ip.fragment_offset() == 0 && ip.flags() == 0 && STUB_SAW(t.completed, g_flag), "an unfragmented packet is left untouched");
    }
}

static void run() {
    const uint32_t L = vp_param(0), sched = vp_param(3);
    St t;
    t.k = vp_param(1); t.last = vp_param(2); t.total = 8 * (t.k - 1) + t.last;
    for (uint32_t i = 0; i < t.total; ++i) t.S[i] = vp_u8();
    // The keys are concrete (parameter P4 selects a configuration): with symbolic keys every comparison inside std::map is a symbolic branch and the
    // tree code behind the infeasible ones does not finish.  X is another datagram: its identification or its unordered address pair differs.
    static const struct { uint16_t id; uint32_t src, dst; uint16_t xid; uint32_t xsrc, xdst; } KEYS[6] = {
        {0x1234, 0x0a000001, 0x0a000002, 0x1235, 0x0a000001, 0x0a000002},   // X: other identification
        {0x1234, 0x0a000002, 0x0a000001, 0x1234, 0x0a000002, 0x0a000003},   // X: other destination, D sent from the higher address
        {0xffff, 0xc0a80001, 0xc0a80001, 0xffff, 0xc0a80001, 0xc0a80002},   // D: source == destination
        {0x0000, 0xffffffff, 0x00000000, 0x0000, 0x00000000, 0x00000001},   // extremes
        {0x8000, 0x7f000001, 0x80000001, 0x8000, 0x80000001, 0x7f000002},   // X shares one address, reversed role
        {0x0001, 0x01020304, 0x04030201, 0x0100, 0x04030201, 0x01020304},   // X: same pair reversed, identification byte-swapped
    };
    const uint32_t kc = vp_param(4);
    t.id = KEYS[kc].id; t.src = KEYS[kc].src; t.dst = KEYS[kc].dst; t.xid = KEYS[kc].xid; t.xsrc = KEYS[kc].xsrc; t.xdst = KEYS[kc].xdst;
    if (vp_param(5)) {
        // the other datagram's key is symbolic: any identification / address pair that differs from D's (unordered pair, as the reassembler keys streams)
        t.xid = vp_u16(); t.xsrc = vp_u32(); t.xdst = vp_u32();
        bool same_pair = (t.xsrc == t.src && t.xdst == t.dst) || (t.xsrc == t.dst && t.xdst == t.src);
        vp_assume(!(t.xid == t.id && same_pair));
    }
    t.ttl = vp_u8(); t.tos = vp_u8(); t.proto = vp_u8(); t.xb0 = vp_u8();
#ifdef VP_REAL_BUILD
    t.proto = 0xfd;
#endif
    for (uint32_t i = 0; i < MAXK; ++i) t.seen[i] = false;
    t.nseen = 0; t.completed = 0;
    IPv4Reassembler r;
    if (L > 0) step(r, t, (sched >> 0) & 7);
    if (L > 1) step(r, t, (sched >> 3) & 7);
    if (L > 2) step(r, t, (sched >> 6) & 7);
    if (L > 3) step(r, t, (sched >> 9) & 7);
    if (L > 4) step(r, t, (sched >> 12) & 7);
    if (L > 5) step(r, t, (sched >> 15) & 7);
    vp_observe(t.completed);
    vp_witness();
}
H(h_c08_schedule) { run(); }
