import C05
def units(tier): return C05.units(tier)
def instances(tier):
    out = []
    for i in C05.instances(tier):
        if 'pseudo_v4' in i.id or i.id == 'h_c05_sum_range[12]':
            for fl in ([], ['--sat-solver', 'cadical'], ['--external-sat-solver', 'kissat']):
                import copy; j = copy.copy(i); j.flags = fl; j.timeout = 200; out.append(j)
    return out
