"""C18 - independent objects can be used from different threads: reduced to a frame condition decided by the solver."""
from driver import Unit, Inst
import C01
EXPLANATION = ('Schedules are not enumerated. For each of a list of operations on thread-private objects (parse, serialize, clone, checksums, address predicates and ranges, option copies, ACK range '
               'splitting, response matching) the unit\'s mutable globals - every non-constant global of the translated module, enumerated from the IR on each run (engine/ir2c.py writes the list next '
               'to the unit) - are snapshotted byte for byte after static initialisation, the operation runs on symbolic inputs, and the snapshot must be unchanged. An operation that writes no shared '
               'state and reads only state nobody writes cannot race, whatever the interleaving.')
BOUNDS = {'quick': '8 operations; inputs symbolic within small fixed sizes (18..24-byte packets)', 'thorough': 'same'}
OUTSIDE = ('operations not in the list (DNS, DHCP, RadioTap, reassemblers, decrypters, sniffers); reads of mutable globals that a user-called registration function may write (Allocators registry); '
           'libpcap / OpenSSL / libc internals; real schedules (no race detector is run)')
ASSUMPTIONS = ['static initialisers run before any thread starts', 'allocator thread-safety is the C library\'s contract']
NRAND = {'quick': 20, 'thorough': 100}
OPS = ['h_c18_parse_ethernet', 'h_c18_parse_udp_serialize', 'h_c18_parse_tcp_clone', 'h_c18_checksums', 'h_c18_addresses', 'h_c18_option_copy', 'h_c18_acked_range', 'h_c18_matches']
def units(tier):
    us = []
    for op in OPS:
        u = Unit('c18_' + op[6:], shim='c18.cpp', redirect=dict(C01.DISPATCH), ctors=True, differential=False)
        u.only_entries = [op]
        us.append(u)
    return us
def instances(tier):
    return [Inst('c18_' + op[6:], op, params=(0, 2), unwind=400, unwindset={'vp_memcpy.0': 2600, 'c18_same.0': 2600, 'vp_buf.0': 30}, timeout=600, mem_gb=6, recursion=3) for op in OPS]
