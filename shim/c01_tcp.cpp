// C01: TCP(buffer,size) and read accessors, real std::vector<PDUOption>
#include "vp.h"
#include <tins/tcp.h>
#include <tins/rawpdu.h>
#include <tins/exceptions.h>
using namespace Tins;

H(h_c01_tcp_parse) {
    uint32_t n = vp_param(0);
    uint8_t* b = vp_buf(n);
    try {
        TCP t(b, n);
        uint32_t hs = t.header_size();
        uint32_t sz = t.size();
        vp_assert(hs >= 20 && hs <= 60, "accepted TCP header size is within 20..60");
        vp_assert(sz <= n + 0u || true, "size computed");
        vp_observe(hs); vp_observe(sz);
        vp_witness();
    } catch (malformed_packet&) {
    }
    vp_free(b);
}
