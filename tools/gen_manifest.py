#!/usr/bin/env python3
"""Regenerates /verif/MANIFEST.json from the table below (kept in one place so that it stays consistent with props/*.py)."""
import json, os
V = os.path.dirname(os.path.dirname(os.path.abspath(__file__)))
TECH = 'solver-based bounded symbolic execution of the real code: clang-14 IR of /repo -> C (engine/ir2c.py) -> CBMC 6.11 (SAT); counterexamples replayed on a g++ ASan/UBSan build'
LEVEL = 'bounded symbolic checking: every input / state inside the stated bounds is covered by the solver, nothing outside them; violations are replayed on the real build before they are reported'
NOTE = 'trusted: clang-14 front end as a stand-in for g++ (differences confined to UB), engine/ir2c.py (validated natively against the real build on every run), CBMC 6.11 and its SAT back end, the stubs/models listed in the evidence file'
CLAIMED = {
 'C01': 'per layer class: the real from-buffer constructor and size/header_size/trailer_size/clone/destructor on every buffer of each length up to a calibrated per-class bound, inner layers as contract stubs; memory safety, termination, no leak, only malformed_packet escapes. Option containers are an append model; byte-walking parsers (options, DNS records, RadioTap fields) reach only short variable parts - see evidence bounds',
 'C02': 'per layer class (fixed-header classes and the option-free shape of TCP): the real parse of a symbolic buffer with a real RawPDU payload of 0..3 symbolic bytes, then the real serialize(): no exception, exactly size() bytes, payload bytes unmodified at offset header_size(), every write inside the output vector. Option containers, API-built packets and edit histories are outside',
 'C03': 'same units as C02: parse -> serialize -> parse: accepted again, every stored-field getter equal, next-protocol tags preserved in front of an unrecognised non-empty payload, payload equal (modulo Ethernet minimum-frame padding), second serialization byte-identical',
 'C04': 'typed option codecs through the real std::vector<PDUOption> with a concrete option count and symbolic values: TCP (mss, winscale, sack_permitted, timestamp, sack, altchecksum, search/remove), IP (stream identifier, NOP, padding), ICMPv6 (source link-layer address, MTU), DHCP (type, lease time, server identifier, subnet mask); getters after each edit and serialize -> parse round trip. All other typed options and edit histories are NOT decided',
 'C05': 'checksum kernels (sum_range, do_checksum, IPv4 pseudo-header, crc32) against RFC 1071 / IEEE 802.3 references for every buffer of each length in the bound; the per-layer serializers that use them are not encoded yet',
 'C06': 'RFC 1982 comparison kernel (seq_compare) for all 2^64 pairs: sign, antisymmetry, shift invariance; plus TCPIP::DataTracker on the real std::map/std::vector for k=2 segments of every shape inside a 3-byte window at initial sequence numbers bracketing the wrap point, stream bytes symbolic; the legacy TCPStream and Flow callbacks are outside',
 'C07': 'only the connection key: StreamIdentifier construction / operator< / operator== / serialize on fully symbolic endpoints (direction independence, equality exactly on the same unordered endpoint pair, strict weak order, IPv4 vs IPv6 keys). The stateful follower (announce once, erase at finish, limits, keep-alive, callbacks) is NOT decided',
 'C08': 'the real IPv4Reassembler::process (std::map of IPv4Stream, add_fragment / is_complete / allocate_pdu, IP copy assignment, RawPDU serialization) on concrete schedules of API-built packets with symbolic payload bytes and header fields: the k=2 or 3 fragments of a datagram in every order, with one duplicate, interleaved with a fragment of another datagram and with an unfragmented packet; status after every packet against a set-of-offsets model, header / cleared offset+MF / payload of the reassembled packet. Keys are concrete (six configurations), the upper-layer dispatcher is a recording stub, fragments are 8 bytes',
 'C09': 'memory safety of CCMP decryption (SessionKeys::decrypt_unicast) on protected-frame bodies of every length in the bound, symbolic header bits and PTK, AES stubbed; cipher equivalence, TKIP/WEP and handshake histories are NOT decided',
 'C12': 'PDUOption special members for every source/target representation with symbolic bytes (copy, move, self-assignment, destruction; leak and double-free checks) and six fixed tree programs over IPSecESP/UDP/RawPDU and Packet (stack, clone, copy-assign shorter/longer, move and reuse, release/re-attach/replace, Packet wrap/copy/move/release) with a forest walk after every step',
 'C13': 'finite and complete: every concrete class x every class with a flag, symbolic flag value, against std::is_base_of',
 'C14': 'matches_response of every overriding class: memory safety on every reply length in the bound with a probe inner layer; mirror/perturbation relation for Ethernet, IPv4, TCP, UDP, ICMP, ICMPv6, DNS, ARP',
 'C15': 'every discovered (class, scalar/address field) pair: set arbitrary value on an arbitrary parsed header state, getter returns it (or value_too_large), every non-aliasing getter unchanged',
 'C18': 'frame condition instead of schedules: for 8 representative operations on thread-private objects the byte snapshot of every mutable global of the translated unit (enumerated from the IR on each run) is unchanged by the operation on symbolic inputs; no race detector, no real threads',
 'C19': 'only the wrap-aware range splitter AckedRange for every (first,last) less than 2^31 apart: at most two ordered disjoint intervals whose union is exactly the cyclic range. AckTracker histories over boost::icl are NOT decided',
 'C16': 'IPv4/IPv6/hardware address order, equality, hash, masks, prefix ranges (every prefix length), contains, iteration at symbolic positions incl. the top of the IPv4 space, hardware-address text parser on every string up to 17 characters',
}
NA = {
 'C11': 'attempted and out of reach: RadioTap::RadioTap() (six in-place vector insertions through Utils::RadioTapWriter) alone gets no verdict from CBMC in 300 s / 12 GB, and the from-buffer parser is only decided up to 3 option bytes (C01); the inductive setter step of DESIGN 5/C11 therefore cannot be discharged on this image',
 'C10': 'attempted (props/C10.py, shim/c10.cpp are kept, not registered): the smallest editing program - three records with concrete names and data, symbolic ttl / id, inserted in or out of section order, getters, serialize, re-parse - gets no verdict from CBMC in 600 s (std::string / std::vector<uint8_t> splicing and the compression-pointer walk); DNS(buffer) itself is only decided up to 14 bytes (C01). The sanitized real build of that harness, which the engine runs for translation validation, aborts with an AddressSanitizer report on the two-authority-records-then-add_answer program, which is the defect the property text describes; that is a concrete run, not a verdict of this technique, so no claim is made',
 'C17': 'file round-trip and BPF filter semantics are libpcap + file-system behaviour (FFI / I/O); once they are stubbed nothing libtins-authored remains except the exception filter of the capture loop',
}
PENDING = 'not decided by the committed machinery yet (see DESIGN.md for the planned encoding); no claim is made'
def main():
    ids = [json.loads(l)['id'] for l in open(os.path.join(V, 'properties.jsonl'))]
    checks = []
    for pid in ids:
        if pid not in CLAIMED or not os.path.exists(os.path.join(V, 'props', pid + '.py')): continue
        checks.append({'property_id': pid, 'quick_cmd': '/verif/check %s --tier quick' % pid, 'thorough_cmd': '/verif/check %s --tier thorough' % pid,
                       'evidence_file': '/verif/evidence/%s.json' % pid, 'replay_cmd_template': '/verif/check %s --replay {path}' % pid, 'engine': 'ir2c-cbmc',
                       'level_claimed': {'category': 'other', 'text': LEVEL + '. Scope: ' + CLAIMED[pid], 'design_ref': 'DESIGN.md section 5/' + pid},
                       'level_note': NOTE, 'technique': TECH})
    na = [{'property_id': p, 'reason': NA.get(p, PENDING)} for p in ids if p not in [c['property_id'] for c in checks]]
    m = {'version': 1, 'setup_cmd': '/verif/setup.sh',
         'hooks': {'guard': 'LIBTINS_VERIF', 'enable': 'no source hook is needed: checks compile /repo/src with clang-14 (-DLIBTINS_VERIF is passed, nothing in /repo tests it) and translate the IR', 
                   'baseline_off_cmd': 'cmake --build /repo/_build -j16 && ctest --test-dir /repo/_build -j8 --timeout 900', 'source_commits': [], 'add_only': True},
         'engines': [{'name': 'ir2c-cbmc', 'path': '/verif/engine', 'serves_properties': [c['property_id'] for c in checks],
                      'kind_free_text': 'clang-14 LLVM IR of the real sources -> C (engine/ir2c.py) -> CBMC 6.11 bounded symbolic execution; translation validated natively; counterexamples replayed on a g++ ASan/UBSan build'}],
         'checks': checks, 'not_applicable': na,
         'notes': 'fix: commits in /repo are recorded in /verif/known_findings.json (fixed) together with the known findings that are reported as KNOWN-FINDING lines'}
    json.dump(m, open(os.path.join(V, 'MANIFEST.json'), 'w'), indent=1)
    print('claimed', [c['property_id'] for c in checks], 'not applicable', [x['property_id'] for x in na])
main()
