#!/bin/sh
# nothing is prebuilt: every check regenerates IR, C and native builds from /repo. Only verify the tools.
set -e
for t in clang++-14 llvm-link-14 llvm-extract-14 llvm-dis-14 llvm-nm-14 opt-14 cbmc gcc g++ python3; do
  command -v $t >/dev/null || { echo "missing tool $t"; exit 1; }
done
cbmc --version
exit 0
