"""C07 - stream follower: the connection key (StreamIdentifier) kernels."""
from driver import Unit, Inst
EXPLANATION = ('StreamIdentifier (constructor, operator<, operator==, serialize) on fully symbolic 16-byte addresses and ports: direction independence, equality exactly on the same unordered endpoint pair, '
               'operator< a strict weak order consistent with ==, and IPv4 vs IPv6 endpoint keys.')
BOUNDS = {'quick': 'all addresses and ports (2 to 3 identifiers per query)', 'thorough': 'same'}
OUTSIDE = ('everything stateful in the follower: StreamFollower::process_packet (std::map of Stream objects with std::function callbacks), Flow::update_state / Stream::is_finished, new-stream / termination callbacks, '
           'the 512-chunk / 3 MiB limits and the keep-alive sweep are NOT decided (that object graph is out of reach of this encoding on this image)')
ASSUMPTIONS = []
NRAND = {'quick': 60, 'thorough': 600}
def units(tier): return [Unit('c07', shim='c07.cpp', ctors=False)]
def instances(tier):
    return [Inst('c07', f, unwind=20, timeout=600, mem_gb=6) for f in ('h_c07_id_direction', 'h_c07_id_distinct', 'h_c07_id_order', 'h_c07_v4_v6_separate')]
