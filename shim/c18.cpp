// C18: operations on thread-private objects neither write nor depend on hidden mutable state (frame condition, DESIGN 5/C18)
#include "stubs.h"
#include <tins/tins.h>
#include <tins/utils/checksum_utils.h>
#include <tins/tcp_ip/data_tracker.h>
#include <tins/tcp_ip/ack_tracker.h>
using namespace Tins;

// own function: its loop gets its own unwinding bound (the snapshot can be a few kilobytes when a change adds a static table)
extern "C" __attribute__((noinline)) bool c18_same(const uint8_t* a, const uint8_t* b, uint64_t n) { bool same = true; for (uint64_t i = 0; i < n; ++i) same = same && a[i] == b[i]; return same; }
struct Frame {
    uint8_t* before; uint64_t n;
    Frame() { n = vp_globals_size(); before = vp_alloc((uint32_t)n); vp_globals_snapshot(before); }
    void check() {
        uint8_t* after = vp_alloc((uint32_t)n); vp_globals_snapshot(after);
        bool same = c18_same(before, after, n);
        vp_assert(same, "the operation leaves every mutable global of the library unchanged");
        vp_free(after); vp_free(before);
    }
};
#define OP(name, body) H(name) { Frame f_; { body } f_.check(); vp_witness(); }

OP(h_c18_parse_ethernet, uint8_t* b = vp_buf(18); try { EthernetII p(b, 18); vp_observe(p.size()); } catch (malformed_packet&) {} vp_free(b);)
OP(h_c18_parse_ip, uint8_t* b = vp_buf(24); b[0] = 0x45; b[6] &= 0xc0; b[7] = 0; try { IP p(b, 24); vp_observe(p.size()); } catch (malformed_packet&) {} vp_free(b);)
OP(h_c18_parse_udp_serialize, uint8_t* b = vp_buf(12); try { UDP p(b, 12); PDU::serialization_type s = p.serialize(); vp_observe(s.size()); } catch (exception_base&) {} vp_free(b);)
OP(h_c18_parse_tcp_clone, uint8_t* b = vp_buf(22); b[12] = 0x50; try { TCP p(b, 22); PDU* c = p.clone(); delete c; } catch (malformed_packet&) {} vp_free(b);)
OP(h_c18_checksums, uint8_t* b = vp_buf(6); vp_observe(Utils::crc32(b, 6)); vp_observe(Utils::sum_range(b, b + 6)); vp_observe(Utils::pseudoheader_checksum(IPv4Address(vp_u32()), IPv4Address(vp_u32()), vp_u16(), vp_u16())); vp_free(b);)
OP(h_c18_addresses, IPv4Address a(vp_u32()); vp_observe(a.is_private()); vp_observe(a.is_loopback()); vp_observe(a.is_multicast()); vp_observe(a.is_broadcast()); IPv4Range r = a / 24; vp_observe(r.contains(IPv4Address(vp_u32())));
                    uint8_t h[6]; for (int i = 0; i < 6; ++i) h[i] = vp_u8(); HWAddress<6> hw(h); vp_observe(hw.is_broadcast()); vp_observe(hw.is_unicast());)
OP(h_c18_option_copy, uint8_t d[12]; for (int i = 0; i < 12; ++i) d[i] = vp_u8(); TCP::option o(3, d, d + 12); TCP::option c(o); TCP::option e(4, d, d + 2); e = c; vp_observe(e.data_size());)
OP(h_c18_acked_range, TCPIP::AckedRange r(vp_u32(), vp_u32()); uint32_t k = 0; while (r.has_next() && k < 3) { TCPIP::AckedRange::interval_type iv = r.next(); vp_observe(iv.lower()); ++k; })
OP(h_c18_matches, uint8_t* b = vp_buf(20); b[12] = 0x50; TCP t(vp_u16(), vp_u16()); const PDU& p = t; vp_observe(p.matches_response(b, 20)); vp_free(b);)
