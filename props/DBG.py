from driver import Unit, Inst
def units(tier): return [Unit('dbg', shim='dbg.cpp', ctors=False)]
def instances(tier): return [Inst('dbg', f, unwind=40, timeout=300, recursion=3, unwindset={'vp_memmove.0': 60, 'vp_memmove.1': 60, 'vp_memcpy.0': 60}) for f in ('h_dbg_rt0','h_dbg_rt1')]
