// C06(b): DataTracker delivers exactly the stream prefix, for any initial sequence number (DESIGN 5/C06)
#include "vp.h"
#include <vector>
#include <tins/tcp_ip/data_tracker.h>
using namespace Tins::TCPIP;

// k segments with CONCRETE shapes (offset, length inside a window of W stream bytes; parameters), symbolic stream bytes and symbolic ISN.
// P0 = W, P1..P3 = shape codes (off * 16 + len), 0 = unused; a shape code with bit 8 set is a stale segment ending `len` bytes before the ISN boundary
static void run(uint32_t k) {
    uint32_t W = vp_param(0) & 0xff;
    // the initial sequence number is one of a fixed list that brackets the wrap point (parameter): with a symbolic ISN every seq_compare in the
    // tracker is a symbolic branch and the std::map / std::vector code behind the infeasible ones does not finish
    static const uint32_t ISNS[8] = {0u, 1u, 0x7ffffffeu, 0x80000000u, 0xfffffffcu, 0xfffffffdu, 0xfffffffeu, 0xffffffffu};
    uint32_t isn = ISNS[(vp_param(0) >> 8) & 7];
    uint8_t S[8];
    for (uint32_t i = 0; i < W; ++i) S[i] = vp_u8();
    DataTracker t(isn);
    bool have[8]; for (uint32_t i = 0; i < 8; ++i) have[i] = false;
    uint32_t delivered = 0;
    for (uint32_t s = 0; s < k; ++s) {
        uint32_t code = vp_param(1 + s);
        uint32_t off = (code >> 4) & 15, len = code & 15;
        DataTracker::payload_type p;
        for (uint32_t i = 0; i < len; ++i) p.push_back(S[off + i]);
        t.process_payload(isn + off, p);
        for (uint32_t i = 0; i < len; ++i) have[off + i] = true;
        uint32_t pre = 0; while (pre < W && have[pre]) ++pre;
        // delivered data is exactly the longest contiguous prefix that has arrived
        vp_assert(t.sequence_number() == isn + pre, "the delivery point is the end of the longest contiguous prefix received");
        vp_assert(t.payload().size() == pre, "exactly the contiguous prefix has been delivered, each byte once");
        bool same = true; for (uint32_t i = 0; i < pre && i < t.payload().size(); ++i) same = same && t.payload()[i] == S[i];
        vp_assert(same, "delivered bytes equal the stream prefix");
        // nothing at or below the delivery point stays buffered, every buffered chunk is stream data at its position, the byte counter is exact
        uint32_t sum = 0; bool okpos = true, okdata = true;
        for (DataTracker::buffered_payload_type::const_iterator it = t.buffered_payload().begin(); it != t.buffered_payload().end(); ++it) {
            uint32_t o = it->first - isn;
            okpos = okpos && o > pre && o < W;
            for (uint32_t i = 0; i < it->second.size(); ++i) okdata = okdata && (o + i < W) && it->second[i] == S[o + i];
            sum += it->second.size();
        }
        vp_assert(okpos, "no buffered chunk starts at or below the delivery point");
        vp_assert(okdata, "every buffered chunk equals the stream at its position");
        vp_assert(t.total_buffered_bytes() == sum, "total_buffered_bytes equals the bytes actually held");
        delivered = pre;
    }
    vp_observe(delivered);
    vp_witness();
}
H(h_c06_tracker1) { run(1); }
H(h_c06_tracker2) { run(2); }
H(h_c06_tracker3) { run(3); }
