/* The four red-black tree primitives that libstdc++ keeps in libstdc++.so (src/c++98/tree.cc), re-implemented in C following that file
 * line by line.  Used by units that execute std::map / std::set from the real headers. */
#include "vp_rt.h"
typedef struct vp_rbn { uint32_t color; uint32_t pad; struct vp_rbn* parent; struct vp_rbn* left; struct vp_rbn* right; } vp_rbn;
enum { VP_RED = 0, VP_BLACK = 1 };

static vp_rbn* vp_rb_increment(vp_rbn* x) {
  if (x->right != 0) { x = x->right; while (x->left != 0) x = x->left; }
  else { vp_rbn* y = x->parent; while (x == y->right) { x = y; y = y->parent; } if (x->right != y) x = y; }
  return x;
}
static vp_rbn* vp_rb_decrement(vp_rbn* x) {
  if (x->color == VP_RED && x->parent->parent == x) x = x->right;
  else if (x->left != 0) { vp_rbn* y = x->left; while (y->right != 0) y = y->right; x = y; }
  else { vp_rbn* y = x->parent; while (x == y->left) { x = y; y = y->parent; } x = y; }
  return x;
}
char* _ZSt18_Rb_tree_incrementPSt18_Rb_tree_node_base(char* x) { return (char*)vp_rb_increment((vp_rbn*)x); }
char* _ZSt18_Rb_tree_incrementPKSt18_Rb_tree_node_base(char* x) { return (char*)vp_rb_increment((vp_rbn*)x); }
char* _ZSt18_Rb_tree_decrementPSt18_Rb_tree_node_base(char* x) { return (char*)vp_rb_decrement((vp_rbn*)x); }
char* _ZSt18_Rb_tree_decrementPKSt18_Rb_tree_node_base(char* x) { return (char*)vp_rb_decrement((vp_rbn*)x); }

static void vp_rb_rotate_left(vp_rbn* x, vp_rbn** root) {
  vp_rbn* y = x->right;
  x->right = y->left;
  if (y->left != 0) y->left->parent = x;
  y->parent = x->parent;
  if (x == *root) *root = y;
  else if (x == x->parent->left) x->parent->left = y;
  else x->parent->right = y;
  y->left = x; x->parent = y;
}
static void vp_rb_rotate_right(vp_rbn* x, vp_rbn** root) {
  vp_rbn* y = x->left;
  x->left = y->right;
  if (y->right != 0) y->right->parent = x;
  y->parent = x->parent;
  if (x == *root) *root = y;
  else if (x == x->parent->right) x->parent->right = y;
  else x->parent->left = y;
  y->right = x; x->parent = y;
}
void _ZSt29_Rb_tree_insert_and_rebalancebPSt18_Rb_tree_node_baseS0_RS_(unsigned char insert_left, char* x_, char* p_, char* header_) {
  vp_rbn* x = (vp_rbn*)x_; vp_rbn* p = (vp_rbn*)p_; vp_rbn* header = (vp_rbn*)header_;
  vp_rbn** root = &header->parent;
  x->parent = p; x->left = 0; x->right = 0; x->color = VP_RED;
  if (insert_left) {
    p->left = x;
    if (p == header) { header->parent = x; header->right = x; }
    else if (p == header->left) header->left = x;
  } else {
    p->right = x;
    if (p == header->right) header->right = x;
  }
  while (x != *root && x->parent->color == VP_RED) {
    vp_rbn* xpp = x->parent->parent;
    if (x->parent == xpp->left) {
      vp_rbn* y = xpp->right;
      if (y && y->color == VP_RED) { x->parent->color = VP_BLACK; y->color = VP_BLACK; xpp->color = VP_RED; x = xpp; }
      else {
        if (x == x->parent->right) { x = x->parent; vp_rb_rotate_left(x, root); }
        x->parent->color = VP_BLACK; xpp->color = VP_RED; vp_rb_rotate_right(xpp, root);
      }
    } else {
      vp_rbn* y = xpp->left;
      if (y && y->color == VP_RED) { x->parent->color = VP_BLACK; y->color = VP_BLACK; xpp->color = VP_RED; x = xpp; }
      else {
        if (x == x->parent->left) { x = x->parent; vp_rb_rotate_right(x, root); }
        x->parent->color = VP_BLACK; xpp->color = VP_RED; vp_rb_rotate_left(xpp, root);
      }
    }
  }
  (*root)->color = VP_BLACK;
}
char* _ZSt28_Rb_tree_rebalance_for_erasePSt18_Rb_tree_node_baseRS_(char* z_, char* header_) {
  vp_rbn* z = (vp_rbn*)z_; vp_rbn* header = (vp_rbn*)header_;
  vp_rbn** root = &header->parent; vp_rbn** leftmost = &header->left; vp_rbn** rightmost = &header->right;
  vp_rbn* y = z; vp_rbn* x = 0; vp_rbn* x_parent = 0;
  if (y->left == 0) x = y->right;
  else if (y->right == 0) x = y->left;
  else { y = y->right; while (y->left != 0) y = y->left; x = y->right; }
  if (y != z) {
    z->left->parent = y; y->left = z->left;
    if (y != z->right) {
      x_parent = y->parent;
      if (x) x->parent = y->parent;
      y->parent->left = x;
      y->right = z->right; z->right->parent = y;
    } else x_parent = y;
    if (*root == z) *root = y;
    else if (z->parent->left == z) z->parent->left = y;
    else z->parent->right = y;
    y->parent = z->parent;
    { uint32_t t = y->color; y->color = z->color; z->color = t; }
    y = z;
  } else {
    x_parent = y->parent;
    if (x) x->parent = y->parent;
    if (*root == z) *root = x;
    else if (z->parent->left == z) z->parent->left = x;
    else z->parent->right = x;
    if (*leftmost == z) {
      if (z->right == 0) *leftmost = z->parent;
      else { vp_rbn* m = x; while (m->left != 0) m = m->left; *leftmost = m; }
    }
    if (*rightmost == z) {
      if (z->left == 0) *rightmost = z->parent;
      else { vp_rbn* m = x; while (m->right != 0) m = m->right; *rightmost = m; }
    }
  }
  if (y->color != VP_RED) {
    while (x != *root && (x == 0 || x->color == VP_BLACK)) {
      if (x == x_parent->left) {
        vp_rbn* w = x_parent->right;
        if (w->color == VP_RED) { w->color = VP_BLACK; x_parent->color = VP_RED; vp_rb_rotate_left(x_parent, root); w = x_parent->right; }
        if ((w->left == 0 || w->left->color == VP_BLACK) && (w->right == 0 || w->right->color == VP_BLACK)) { w->color = VP_RED; x = x_parent; x_parent = x_parent->parent; }
        else {
          if (w->right == 0 || w->right->color == VP_BLACK) { w->left->color = VP_BLACK; w->color = VP_RED; vp_rb_rotate_right(w, root); w = x_parent->right; }
          w->color = x_parent->color; x_parent->color = VP_BLACK;
          if (w->right) w->right->color = VP_BLACK;
          vp_rb_rotate_left(x_parent, root);
          break;
        }
      } else {
        vp_rbn* w = x_parent->left;
        if (w->color == VP_RED) { w->color = VP_BLACK; x_parent->color = VP_RED; vp_rb_rotate_right(x_parent, root); w = x_parent->left; }
        if ((w->right == 0 || w->right->color == VP_BLACK) && (w->left == 0 || w->left->color == VP_BLACK)) { w->color = VP_RED; x = x_parent; x_parent = x_parent->parent; }
        else {
          if (w->left == 0 || w->left->color == VP_BLACK) { w->right->color = VP_BLACK; w->color = VP_RED; vp_rb_rotate_left(w, root); w = x_parent->left; }
          w->color = x_parent->color; x_parent->color = VP_BLACK;
          if (w->left) w->left->color = VP_BLACK;
          vp_rb_rotate_right(x_parent, root);
          break;
        }
      }
    }
    if (x) x->color = VP_BLACK;
  }
  return (char*)y;
}
