#include "vp.h"
#include <tins/udp.h>
#include <tins/rawpdu.h>
#include <tins/dot1q.h>
using namespace Tins;
H(h_dbg_1) { uint8_t pl[2] = {1,2}; UDP u(1, 2); u.inner_pdu(new RawPDU(pl, 2)); vp_assert(u.inner_pdu()->parent_pdu() == &u, "p"); vp_witness(); }
H(h_dbg_2) { uint8_t pl[2] = {1,2}; UDP u(1, 2); u.inner_pdu(new RawPDU(pl, 2)); PDU* c = u.clone(); vp_assert(c->inner_pdu() != 0 && c->inner_pdu()->parent_pdu() == c, "p"); delete c; vp_witness(); }
H(h_dbg_3) { uint8_t pl[2] = {1,2}; UDP u(1, 2); u.inner_pdu(RawPDU(pl, 2)); vp_assert(u.inner_pdu()->parent_pdu() == &u, "p"); vp_witness(); }
