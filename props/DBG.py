from driver import Unit, Inst
import C01
def units(tier): return [Unit('dbg', shim='dbg.cpp', ctors=True, redirect=[p for p in C01.plan('quick') if p[0]=='IP'][0][3], differential=False)]
def instances(tier): return [Inst('dbg', 'h_c14_rel_IP', unwind=24, unwindset={'vp_buf.0': 50}, timeout=100)]
