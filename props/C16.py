"""C16 - address types: ordering, hashing, masks, range arithmetic, iteration, hardware-address text."""
from driver import Unit, Inst
EXPLANATION = ('The real IPv4Address / IPv6Address / HWAddress<6> / AddressRange / AddressRangeIterator / Internals::increment.. code is executed on fully symbolic addresses: '
               'order and equality against the numeric order of the address bytes, hash consistency, from_prefix_length and operator/ for EVERY prefix length (one query per length, '
               'address and probe symbolic), contains() against [addr&mask, addr|~mask], iteration of ranges of up to K addresses at a SYMBOLIC position (so ranges ending at the all-ones '
               'address and carries are included), host iteration of /28../30, non-iterability of /31 and /32, hardware-address format->parse round trip for all 2^48 addresses and the '
               'parser on every string of each length <= 17.')
BOUNDS = {'quick': 'prefix lengths: all 33 (IPv4), 0,1,7,8,9,63,64,65,120,127,128 (IPv6), all 49 (HW); iterated ranges: 1..5 addresses (IPv4, IPv6); strings: length 0..17 step 1 (quick: 0,1,2,3,5,17)',
          'thorough': 'all 129 IPv6 prefix lengths; iterated ranges up to 9 addresses; every string length 0..17'}
OUTSIDE = 'hash consistency of IPv6Address (a 16-round 64-bit mixing function: the equivalence query did not finish in 300 s); IPv6/hardware ranges whose end()+1 wraps past the all-ones address (increment_buffer steps its iterator below begin(), which CBMC cannot follow); IPv4/IPv6 textual forms (inet_pton / iostream formatting are libc / libstdc++ code outside libtins); ranges with more than 9 addresses (the iterator is position independent)'
ASSUMPTIONS = ['prefix lengths above the address width are rejected by operator/ before any shift (checked separately by the harness only for in-range lengths)']
NRAND = {'quick': 60, 'thorough': 400}

def units(tier):
    return [Unit('c16', shim='c16.cpp', ctors=False)]

def instances(tier):
    q = tier == 'quick'
    out = [Inst('c16', 'h_c16_v4_order', timeout=120), Inst('c16', 'h_c16_v6_order', unwind=18, timeout=300), Inst('c16', 'h_c16_hw_order', unwind=20, timeout=120)]
    for p in range(33): out.append(Inst('c16', 'h_c16_v4_prefix', params=(p,), unwind=6, timeout=120))
    for k in (range(0, 5) if q else range(0, 9)): out.append(Inst('c16', 'h_c16_v4_iter', params=(k,), unwind=k + 3, timeout=300))
    for p in (28, 29, 30): out.append(Inst('c16', 'h_c16_v4_hosts', params=(p,), unwind=18, timeout=300))
    for p in (31, 32): out.append(Inst('c16', 'h_c16_v4_small_prefix_not_iterable', params=(p,), unwind=6, timeout=120))
    for p in ((0, 1, 7, 8, 9, 63, 64, 65, 120, 127, 128) if q else range(129)): out.append(Inst('c16', 'h_c16_v6_prefix', params=(p,), unwind=18, timeout=300))
    for k in (range(0, 4) if q else range(0, 9)): out.append(Inst('c16', 'h_c16_v6_iter', params=(k,), unwind=18, timeout=600))
    for k in (4, 6): out += [Inst('c16', 'h_c16_v6_iter_carry', params=(k,), unwind=18, timeout=600), Inst('c16', 'h_c16_hw_iter_carry', params=(k,), unwind=12, timeout=600)]
    for p in range(49): out.append(Inst('c16', 'h_c16_hw_prefix', params=(p,), unwind=8, timeout=120))
    out.append(Inst('c16', 'h_c16_hw_text_roundtrip', unwind=20, timeout=600))
    for n in ((0, 1, 2, 3, 5, 17) if q else range(18)): out.append(Inst('c16', 'h_c16_hw_parse_any', params=(n,), unwind=20, timeout=600, accept=None))
    return out
