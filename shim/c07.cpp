// C07 kernels: the direction-independent connection key (StreamIdentifier)
#include "vp.h"
#include <tins/tcp_ip/stream_identifier.h>
#include <tins/ip_address.h>
#include <tins/ipv6_address.h>
using namespace Tins; using namespace Tins::TCPIP;
typedef StreamIdentifier::address_type A;
static A sym_addr() { A a; for (unsigned i = 0; i < 16; ++i) a[i] = vp_u8(); return a; }
static bool eqa(const A& x, const A& y) { bool e = true; for (unsigned i = 0; i < 16; ++i) e = e && x[i] == y[i]; return e; }

H(h_c07_id_direction) {
    A a = sym_addr(), b = sym_addr(); uint16_t pa = vp_u16(), pb = vp_u16();
    StreamIdentifier x(a, pa, b, pb), y(b, pb, a, pa);
    vp_assert(x == y, "the identifier of a connection does not depend on the direction of the packet");
    vp_assert(!(x < y) && !(y < x), "the two directions of a connection are equivalent under operator<");
    vp_witness();
}
H(h_c07_id_distinct) {
    A a = sym_addr(), b = sym_addr(), c = sym_addr(), d = sym_addr(); uint16_t pa = vp_u16(), pb = vp_u16(), pc = vp_u16(), pd = vp_u16();
    bool same_fwd = eqa(a, c) && pa == pc && eqa(b, d) && pb == pd, same_rev = eqa(a, d) && pa == pd && eqa(b, c) && pb == pc;
    StreamIdentifier x(a, pa, b, pb), y(c, pc, d, pd);
    vp_assert((x == y) == (same_fwd || same_rev), "two identifiers are equal exactly when they name the same unordered pair of (address, port) endpoints");
    vp_assert((!(x < y) && !(y < x)) == (x == y), "operator< and operator== agree on which identifiers are the same connection");
    vp_witness();
}
H(h_c07_id_order) {
    A a = sym_addr(), b = sym_addr(), c = sym_addr(), d = sym_addr(), e = sym_addr(), f = sym_addr();
    StreamIdentifier x(a, vp_u16(), b, vp_u16()), y(c, vp_u16(), d, vp_u16()), z(e, vp_u16(), f, vp_u16());
    vp_assert(!(x < x), "operator< is irreflexive");
    vp_assert(!(x < y) || !(y < x), "operator< is asymmetric");
    vp_assert(!((x < y) && (y < z)) || (x < z), "operator< is transitive");
    vp_assert(!(!(x < y) && !(y < x) && !(y < z) && !(z < y)) || (!(x < z) && !(z < x)), "equivalence under operator< is transitive (strict weak order)");
    vp_witness();
}
H(h_c07_v4_v6_separate) {
    uint32_t v4 = vp_u32(); uint8_t v6[16]; for (int i = 0; i < 16; ++i) v6[i] = vp_u8();
    A x = StreamIdentifier::serialize(IPv4Address(v4)), y = StreamIdentifier::serialize(IPv6Address(v6));
    vp_assert(!eqa(x, y), "an IPv4 endpoint and an IPv6 endpoint never serialize to the same key bytes");
    vp_witness();
}
