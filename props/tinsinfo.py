"""Facts about libtins' classes, regenerated from /repo's headers on every run."""
import os, re
from driver import REPO

_cache = {}
def classes():
    """[(name, header relative to include/, base or None, has_pdu_flag)] for classes declared in include/tins"""
    if 'c' in _cache: return _cache['c']
    inc = os.path.join(REPO, 'include', 'tins')
    out = []
    for root, _, files in os.walk(inc):
        for f in sorted(files):
            if not f.endswith('.h') or f == 'tins.h': continue
            txt = open(os.path.join(root, f), errors='replace').read()
            cur = None
            for ln in txt.split('\n'):
                m = re.match(r'\s*class\s+(?:TINS_API\s+)?(\w+)\s*(?::\s*public\s+([\w:]+))?\s*\{', ln)
                if m:
                    cur = [m.group(1), os.path.relpath(os.path.join(root, f), os.path.join(REPO, 'include')), (m.group(2) or '').split('::')[-1] or None, False]
                    out.append(cur)
                if cur and re.search(r'static const PDU::PDUType pdu_flag\s*=', ln): cur[3] = True
    seen = set(); res = []
    for c in out:
        if c[0] not in seen: seen.add(c[0]); res.append(tuple(c))
    _cache['c'] = res
    return res

def pdu_classes():
    return [c for c in classes() if c[3] and c[0] != 'PDUCacher']

def ancestors(name):
    by = {c[0]: c for c in classes()}
    out = []
    cur = by.get(name)
    while cur and cur[2]:
        out.append(cur[2]); cur = by.get(cur[2])
    return out

def mangled(name):
    return '%d%s' % (len(name), name)
