"""C19 - ACK/SACK tracker: the wrap-aware range splitter."""
from driver import Unit, Inst
EXPLANATION = ('AckedRange (constructor, has_next, next) for every (first,last) less than 2^31 apart, including ranges that wrap past 2^32: at most two intervals, ordered, disjoint, and their union is '
               'exactly the cyclic range (membership of a symbolic probe point).')
BOUNDS = {'quick': 'all first, last (distance < 2^31), all probe points', 'thorough': 'same'}
OUTSIDE = 'AckTracker::process_packet / process_sack / is_segment_acked over histories: the state is a boost::icl::interval_set, which this encoding does not reach; SACK option decoding'
ASSUMPTIONS = []
NRAND = {'quick': 100, 'thorough': 1000}
def units(tier): return [Unit('c19', shim='c19.cpp', ctors=False)]
def instances(tier): return [Inst('c19', 'h_c19_acked_range', unwind=6, timeout=600, mem_gb=6)]
