#include "vp.h"
#include <tins/radiotap.h>
using namespace Tins;
H(h_dbg_rt0) { RadioTap rt; vp_assert(rt.header_size() >= 8, "hs"); vp_witness(); }
H(h_dbg_rt1) { RadioTap rt; uint8_t v = vp_u8(); rt.rate(v); vp_assert(rt.rate() == v, "rate"); vp_witness(); }
