from driver import Unit, Inst
EXPLANATION = 'C06: TCP reassembly kernels decided symbolically (see DESIGN 5/C06)'
BOUNDS = {'quick': 'seq_compare: all 2^64 pairs', 'thorough': 'seq_compare: all 2^64 pairs'}
OUTSIDE = 'legacy TCPStream follower'
ASSUMPTIONS = []
def units(tier):
    return [Unit('seq', shim='seq.cpp')]
def instances(tier):
    return [Inst('seq', f, timeout=60) for f in ('h_seq_compare_rfc1982', 'h_seq_compare_antisym', 'h_seq_compare_shift')]
