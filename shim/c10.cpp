// C10 (spike): DNS section editing with concrete names and data, symbolic numeric fields - insertion into an earlier section while later ones are populated
#include "vp.h"
#include <tins/dns.h>
#include <string>
using namespace Tins;

static bool same(const DNS::resource& a, const char* name, const char* data, uint16_t type, uint32_t ttl) {
    return a.dname() == name && a.data() == data && a.query_type() == type && a.ttl() == ttl;
}
// P0: 0 = insertions in section order, 1 = two authority records then an answer (the earlier section grows while a later one is populated)
H(h_c10_sections) {
    uint32_t t1 = vp_u32(), t2 = vp_u32(), t3 = vp_u32(); uint16_t id = vp_u16();
    DNS d; d.id(id);
    DNS::resource r1("ab.c", "ns.c", DNS::NS, DNS::IN, t1), r2("ab.c", "nt.c", DNS::NS, DNS::IN, t2), r3("ab.c", "1.2.3.4", DNS::A, DNS::IN, t3);
    if (vp_param(0) == 0) { d.add_answer(r3); d.add_authority(r1); d.add_authority(r2); }
    else { d.add_authority(r1); d.add_authority(r2); d.add_answer(r3); }
    vp_assert(d.answers_count() == 1 && d.authority_count() == 2 && d.additional_count() == 0 && d.questions_count() == 0, "DNS: the header counts agree with the insertions");
    DNS::resources_type an = d.answers(), au = d.authority();
    vp_assert(an.size() == 1 && same(an[0], "ab.c", "1.2.3.4", DNS::A, t3), "DNS: answers() returns the record inserted");
    vp_assert(au.size() == 2 && same(au[0], "ab.c", "ns.c", DNS::NS, t1) && same(au[1], "ab.c", "nt.c", DNS::NS, t2), "DNS: authority() returns the records inserted, in order, with expanded names");
    PDU::serialization_type out = d.serialize();
    DNS q(&out[0], (uint32_t)out.size());
    DNS::resources_type an2 = q.answers(), au2 = q.authority();
    vp_assert(q.id() == id && an2.size() == 1 && same(an2[0], "ab.c", "1.2.3.4", DNS::A, t3) && au2.size() == 2 && same(au2[0], "ab.c", "ns.c", DNS::NS, t1) && same(au2[1], "ab.c", "nt.c", DNS::NS, t2),
              "DNS: serializing and re-parsing gives the same sections");
    vp_witness();
}
