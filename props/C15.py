"""C15 - header field accessors are exact inverses and do not disturb neighbouring fields.
The (class, field) table is regenerated from /repo's headers on every run: a field is a name with both `void f(T)` and `T f() const`
declared in a layer class (or one of its bases).  One CBMC query per (class, field): the object state is arbitrary (obtained by the real
from-buffer constructor on a symbolic header), the value is arbitrary over the argument type."""
import os, re
from driver import Unit, Inst, REPO
import tinsinfo, C01

EXPLANATION = ('For every scalar / address accessor pair f of every layer class K (discovered from the headers): object = K(symbolic header bytes) (arbitrary prior state), '
               'before = every getter of K; k.f(v) with v arbitrary over the argument type; then either value_too_large was thrown and v does not fit the field (sub-byte / odd-width '
               'fields), or f() == v and every other getter returns what it returned before.  Exhaustive in v and in the prior state.')
BOUNDS = {'quick': 'every discovered (class, field) pair of the 25 classes in QUICK_CLASSES, one query per pair; header bytes symbolic; one inner-less object per query', 'thorough': 'adds ICMPv6, Dot11Beacon (representative of the management frames) and Dot11BlockAckRequest: 217 pairs of 28 classes; the other 802.11 subclasses inherit the same accessor code and are in no tier'}
OUTSIDE = 'serialized bit positions against the protocol specifications (no independent layout table was transcribed); fields without a getter; vector/string valued fields; derived fields (C05)'
ASSUMPTIONS = ['prior states are those reachable by parsing a header (every header byte symbolic, subject to the constructor accepting it)']
NRAND = {'quick': 20, 'thorough': 20}

CHUNK = 1   # fields per query (a symbolic field index over several fields made the formula larger than separate queries: measured)
# storage that is shared by design (read from the sources: same header bytes / one setter maintains the other)
MANUAL_ALIAS = {'RTP': [{'padding_size', 'padding_bit'}], 'ICMP': [{'original_timestamp', 'address_mask'}], 'DHCPv6': [{'transaction_id', 'hop_count', 'msg_type'}]}
# quick tier: every non-802.11 class except ICMPv6, plus the 802.11 base class and one control frame (the management / data / control subclasses inherit
# the same accessor code).  Dot11Beacon (85 s per field), Dot11BlockAckRequest and ICMPv6 were in the quick tier until a fresh-copy run of it took more than
# 900 s; they are in the thorough tier
QUICK_CLASSES = {'ARP', 'BootP', 'DHCPv6', 'DNS', 'Dot1Q', 'Dot3', 'RC4EAPOL', 'RSNEAPOL', 'EthernetII', 'ICMP', 'IP', 'IPSecAH', 'IPSecESP', 'IPv6', 'Loopback', 'MPLS',
                 'PPPoE', 'RTP', 'SLL', 'SNAP', 'STP', 'TCP', 'UDP', 'Dot11', 'Dot11RTS'}
# thorough tier: the quick classes plus the three that were moved out of it (validated as the former quick tier: 217 queries, 13 min).  All 44 classes
# (515 queries) were tried once: the run was killed by the kernel's out-of-memory handler after 34 min, so the remaining 802.11 subclasses are not in any tier
THOROUGH_CLASSES = QUICK_CLASSES | {'ICMPv6', 'Dot11Beacon', 'Dot11BlockAckRequest'}
SKIP_CLASSES = {'RadioTap', 'DHCP', 'RSNEAPOL'}   # RSNEAPOL: the shortest accepted buffer already carries a symbolic-length key (no verdict in 300 s);   # RadioTap: all real fields are option-backed (C11); DHCP: BootP fields are checked on BootP, the rest is option-backed (C04)
INT_T = {'uint8_t': 8, 'uint16_t': 16, 'uint32_t': 32, 'uint64_t': 64, 'int8_t': 8, 'int16_t': 16, 'int32_t': 32, 'int64_t': 64}
SKIP_FIELDS = {('Dot1Q', 'append_padding'), }
# getters whose value is computed from other fields or the inner layer, not stored state
SKIP_GETTERS = {'size', 'header_size', 'trailer_size', 'pdu_type', 'advertised_size', 'inner_pdu', 'parent_pdu', 'clone'}


def class_body(txt, name):
    m = re.search(r'class\s+(?:TINS_API\s+)?%s\b[^;{]*\{' % re.escape(name), txt)
    if not m: return ''
    i = m.end(); depth = 1
    while i < len(txt) and depth:
        if txt[i] == '{': depth += 1
        elif txt[i] == '}': depth -= 1
        i += 1
    return txt[m.end():i]


def accessors(name, hdr):
    txt = open(os.path.join(REPO, 'include', hdr), errors='replace').read()
    body = class_body(txt, name)
    # drop nested class/struct bodies so that their members are not mistaken for the layer's
    out = ''; depth = 0
    for ch in body:
        if ch == '{': depth += 1
        elif ch == '}': depth -= 1
        elif depth == 0: out += ch
        if ch == '}' and depth == 0: out += ';'
    # keep only the public sections
    parts = re.split(r'\b(public|protected|private)\s*:', out)
    pub = ''; cur = 'private'
    for p_ in parts:
        if p_ in ('public', 'protected', 'private'): cur = p_
        elif cur == 'public': pub += p_
    out = pub
    setters = {}; getters = {}
    for m in re.finditer(r'\bvoid\s+(\w+)\s*\(\s*(?:const\s+)?([\w:]+(?:<[\w ,]+>)?)\s*&?\s*\w*\s*\)\s*;', out):
        setters[m.group(1)] = m.group(2)
    for m in re.finditer(r'(?:^|[;}\n])\s*(?:const\s+)?([\w:]+(?:<[\w ,]+>)?)\s*&?\s+(\w+)\s*\(\s*\)\s*const', out):
        getters[m.group(2)] = m.group(1)
    return setters, getters


_src = {}
_bodies = {}
def option_backed(cls, name):
    """True if K::name() const is implemented by looking an option up (typed option getters belong to C04, and throw when the option is absent)"""
    if not _src:
        for root, _, files in os.walk(os.path.join(REPO, 'src')):
            for f in files:
                if f.endswith('.cpp'): _src[f] = open(os.path.join(root, f), errors='replace').read()
        for root, _, files in os.walk(os.path.join(REPO, 'include', 'tins')):
            for f in files:
                if f.endswith('.h'): _src['h:' + f] = open(os.path.join(root, f), errors='replace').read()
    pat = re.compile(r'\b%s::%s\s*\(\s*\)\s*const\s*\{(.*?)\n\}' % (re.escape(cls), re.escape(name)), re.S)
    for txt in _src.values():
        m = pat.search(txt)
        if m:
            return bool(re.search(r'search_option|search_and_convert|find_option|option_not_found|Parser|safe_search|generic_search', m.group(1)))
    return False


def union_members(cls_hdr_text):
    """names that live inside a union of the header struct(s): {member or variable name: union id}"""
    out = {}
    txt = cls_hdr_text
    uid = 0
    for m in re.finditer(r'\bunion\b[^;{]*\{', txt):
        i = m.end(); depth = 1
        while i < len(txt) and depth:
            if txt[i] == '{': depth += 1
            elif txt[i] == '}': depth -= 1
            i += 1
        body = txt[m.end():i - 1]
        tail = re.match(r'\s*(\w+)?\s*;', txt[i:])
        uid += 1
        if tail and tail.group(1): out[tail.group(1)] = uid
        # direct members of the union (depth 0 inside it): last identifier before ';' or after a nested '}'
        d = 0; cur = ''
        for ch in body:
            if ch == '{': d += 1
            elif ch == '}': d -= 1; cur = ''
            elif d == 0:
                if ch == ';':
                    mm = re.search(r'(\w+)\s*(\[[^\]]*\])?\s*$', cur)
                    if mm: out[mm.group(1)] = uid
                    cur = ''
                else: cur += ch
    return out


def getter_path(cls, name, hdr):
    """first member path a getter reads, e.g. header_.un.echo.id -> ['un','echo','id']"""
    option_backed(cls, name)   # fills _src
    pats = [re.compile(r'\b%s::%s\s*\(\s*\)\s*const\s*\{(.*?)\n\}' % (re.escape(cls), re.escape(name)), re.S),
            re.compile(r'\b%s\s*\(\s*\)\s*const\s*\{(.*?)\}' % re.escape(name), re.S)]
    texts = list(_src.values())
    for pat in pats:
        for txt in ([open(os.path.join(REPO, 'include', hdr), errors='replace').read()] if pat is pats[1] else texts):
            m = pat.search(txt)
            if m:
                mm = re.search(r'\b\w+_\.((?:\w+\.)*\w+)', m.group(1))
                if mm: return mm.group(1).split('.')
    return []


def norm_t(t):
    return t.replace(' ', '')


_tab = {}
def table():
    """[(class, header, [(field, type)], [all getters (name, type)])]"""
    if 't' in _tab: return _tab['t']
    res = _table()
    _tab['t'] = res
    return res


def _table():
    res = []
    by = {c[0]: c for c in tinsinfo.classes()}
    for name, hdr, base, flag in tinsinfo.pdu_classes():
        if name in C01.SKIP or name not in C01.HEADER or name in SKIP_CLASSES: continue
        chain = [name] + tinsinfo.ancestors(name)
        S = {}; G = {}
        for cn in reversed(chain):
            if cn not in by or cn == 'PDU': continue
            s_, g_ = accessors(cn, by[cn][1])
            S.update(s_); G.update(g_)
        owner = {}
        for cn in reversed(chain):
            if cn not in by or cn == 'PDU': continue
            s_, g_ = accessors(cn, by[cn][1])
            for g in g_: owner[g] = cn
        G = {g: t for g, t in G.items() if not option_backed(owner.get(g, name), g)}
        fields = []
        for f, t in sorted(S.items()):
            if f in G and norm_t(G[f]) == norm_t(t) and (name, f) not in SKIP_FIELDS and supported(t):
                fields.append((f, t))
        gets = [(g, t) for g, t in sorted(G.items()) if g not in SKIP_GETTERS and supported(t)]
        if fields: res.append((name, hdr, fields, gets))
    return res


def supported(t):
    t = norm_t(t)
    return t in INT_T or t.startswith('small_uint<') or t in ('address_type', 'ipaddress_type', 'hwaddress_type', 'IPv4Address', 'IPv6Address')


def qual(cls, t):
    t = norm_t(t)
    if t in INT_T or t.startswith('small_uint<') or t in ('IPv4Address', 'IPv6Address'): return t
    return 'typename K::' + t if False else cls + '::' + t


PRE = '''// generated by props/C15.py
#include "stubs.h"
#include <tins/tins.h>
#include <%(hdr)s>
using namespace Tins;
namespace {
template<class T> struct sym;
template<> struct sym<uint8_t> { static uint8_t get() { return vp_u8(); } };
template<> struct sym<uint16_t> { static uint16_t get() { return vp_u16(); } };
template<> struct sym<uint32_t> { static uint32_t get() { return vp_u32(); } };
template<> struct sym<uint64_t> { static uint64_t get() { return vp_u64(); } };
template<> struct sym<int8_t> { static int8_t get() { return (int8_t)vp_u8(); } };
template<> struct sym<int16_t> { static int16_t get() { return (int16_t)vp_u16(); } };
template<> struct sym<int32_t> { static int32_t get() { return (int32_t)vp_u32(); } };
template<> struct sym<IPv4Address> { static IPv4Address get() { return IPv4Address(vp_u32()); } };
template<> struct sym<IPv6Address> { static IPv6Address get() { uint8_t b[16]; for (int i = 0; i < 16; ++i) b[i] = vp_u8(); return IPv6Address(b); } };
template<size_t n> struct sym<HWAddress<n> > { static HWAddress<n> get() { uint8_t b[n]; for (size_t i = 0; i < n; ++i) b[i] = vp_u8(); return HWAddress<n>(b); } };
}
'''


def alias_sets(cls, hdr, names):
    by = {c[0]: c for c in tinsinfo.classes()}
    um = {}
    for cn in [cls] + tinsinfo.ancestors(cls):
        if cn in by and cn != 'PDU': um.update(union_members(open(os.path.join(REPO, 'include', by[cn][1]), errors='replace').read()))
    grp = {}
    for n in names:
        owner = cls
        p = []
        for cn in [cls] + tinsinfo.ancestors(cls):
            if cn in by and cn != 'PDU':
                p = getter_path(cn, n, by[cn][1])
                if p: break
        g = None
        for comp in p:
            if comp in um: g = um[comp]; break
        grp[n] = g
    return grp


def shim_for(cls, hdr, fields, gets, h, pin):
    grp = alias_sets(cls, hdr, [g for g, _ in gets])
    L = [PRE % dict(hdr=hdr)]
    L.append('H(h_c15_%s) {' % cls)
    L.append('    uint8_t* hb = vp_buf(%d);' % h)
    if pin: L.append('    ' + pin.replace('b[', 'hb[').replace('n >', '%du >' % h).replace('vp_param(2)', 'vp_param(1)'))
    L.append('    try {')
    L.append('        %s k(hb, %d);' % (cls, h))
    L.append('        uint32_t fi = vp_param(0);   // concrete: one query per field')
    L.append('        switch (fi) {')
    for i, (f, t) in enumerate(fields):
        qt = qual(cls, t)
        L.append('        case %d: {   // %s' % (i, f))
        def related(g):   # members of one union legitimately alias each other
            return g == f or (grp.get(g) is not None and grp.get(g) == grp.get(f)) or any(g in a and f in a for a in MANUAL_ALIAS.get(cls, []))
        for j, (g, gt) in enumerate(gets):
            if not related(g): L.append('            %s b%d = k.%s();' % (qual(cls, gt), j, g))
        if norm_t(t).startswith('small_uint<'):
            bits = int(re.search(r'<\s*(\d+)\s*>', t).group(1))
            L.append('            uint64_t raw = vp_u64(); typedef %s::repr_type R; R rv = (R)raw;' % qt)
            L.append('            bool fits = (uint64_t)rv <= %dull; bool threw = false;' % ((1 << bits) - 1))
            L.append('            try { k.%s(%s(rv)); } catch (value_too_large&) { threw = true; }' % (f, qt))
            L.append('            vp_assert(threw == !fits, "a value too large for a sub-byte / odd-width field is rejected, a fitting one is accepted");')
            L.append('            if (!threw) vp_assert((uint64_t)(R)k.%s() == (uint64_t)rv, "%s::%s: getter returns the value just set");' % (f, cls, f))
        else:
            L.append('            %s v = sym<%s>::get();' % (qt, qt))
            L.append('            k.%s(v);' % f)
            L.append('            vp_assert(k.%s() == v, "%s::%s: getter returns the value just set");' % (f, cls, f))
        for j, (g, gt) in enumerate(gets):
            if not related(g): L.append('            vp_assert(k.%s() == b%d, "%s: setting %s leaves %s unchanged");' % (g, j, cls, f, g))
        L.append('            vp_accept();')
        L.append('            break; }')
    L.append('        }')
    L.append('    } catch (malformed_packet&) {')
    L.append('    }')
    L.append('    vp_free(hb);')
    L.append('    vp_witness();')
    L.append('}')
    return '\n'.join(L) + '\n'


_c = {}
def plan():
    if 'p' in _c: return _c['p']
    c01 = {p[0]: p for p in C01.plan('quick')}
    out = []
    for cls, hdr, fields, gets in table():
        h = C01.HEADER[cls]
        if cls in ('BootP', 'DHCP', 'PKTAP', 'PPI', 'RadioTap', 'DNS', 'RSNEAPOL', 'RC4EAPOL', 'Dot11BlockAck', 'DHCPv6', 'ICMPv6'): pass
        pin = C01.PIN.get(cls, ('', None))[0]
        pins = [5] if cls == 'TCP' else [0]
        out.append((cls, hdr, fields, gets, h, pin, pins, c01[cls][3]))
    _c['p'] = out
    return out


def units(tier):
    return [Unit('c15_' + cls, shim_text=shim_for(cls, hdr, fields, gets, h, pin), redirect=red, ctors=(cls in ('IP', 'IPv6')), differential=False)
            for cls, hdr, fields, gets, h, pin, pins, red in plan()]


def instances(tier):
    out = []
    for cls, hdr, fields, gets, h, pin, pins, red in plan():
        if tier == 'quick' and cls not in QUICK_CLASSES: continue
        if tier != 'quick' and cls not in THOROUGH_CLASSES: continue
        for pv, ch in [(pv, ch) for pv in pins for ch in range((len(fields) + CHUNK - 1) // CHUNK)]:
            out.append(Inst('c15_' + cls, 'h_c15_' + cls, params=(ch, pv), unwind=20, unwindset={'vp_buf.0': h + 2}, timeout=300, mem_gb=6, recursion=2, accept=True,
                            note='%s: fields %s (index symbolic within the chunk)' % (cls, ', '.join(f for f, _ in fields[ch * CHUNK:(ch + 1) * CHUNK]))))
    return out
