/* Shared prelude of every translated unit and of rt.c.
 * VP_NATIVE: the generated C is compiled with gcc for translation validation (engine/rt.c gives
 * concrete bodies); otherwise the file is read by CBMC. */
#ifndef VP_RT_H
#define VP_RT_H
#include <stdint.h>
#include <stddef.h>
#include <string.h>
#include <stdlib.h>
extern int __vp_exc; extern char* __vp_exc_obj; extern char* __vp_exc_ti;
#ifdef VP_NATIVE
void vp_native_model_assert(int c, const char* m);
void vp_native_assert(int c, const char* m);
void vp_native_assume(int c);
#define __CPROVER_assert(c, m) vp_native_model_assert(!!(c), m)
#define __CPROVER_assume(c) vp_native_assume(!!(c))
#define VP_ASSERT(c, m) vp_native_assert(!!(c), m)
#else
#define VP_ASSERT(c, m) __CPROVER_assert(c, m)
#endif
static inline char* __vp_new_typed(unsigned long n, char* p) { __CPROVER_assume(p != 0); return p; }
#endif
