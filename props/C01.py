"""C01 - parsing untrusted bytes is memory-safe and fails only as malformed_packet (DESIGN 5/C01).
One unit per layer class: the real (buffer,size) constructor + generic read accessors on the accepted object,
buffer length enumerated concretely (one CBMC query per length), contents symbolic, the neighbouring layers
replaced by contract stubs (shim/stubs.h)."""
import os, re
from driver import Unit, Inst
import tinsinfo

EXPLANATION = ('Per layer class K: CBMC executes the real K(buffer,size) constructor (clang IR of /repo translated to C) on a heap buffer of exactly n bytes with '
               'symbolic contents, for every n in the stated range, then size()/header_size()/trailer_size()/clone()/destructor on the accepted object. Checked: every '
               'load/store/memcpy/free of the translated libtins code (CBMC pointer and bounds checks), loop termination within the bound (unwinding assertions), no leak '
               '(--memory-leak-check) on accepting and throwing paths, and that the only exception leaving the constructor is malformed_packet. Inner layers are contract stubs '
               'that assert the range handed down lies inside the buffer (composition by induction on nesting depth).')
BOUNDS = {'quick': 'buffer length n = 0 .. header+8 per class (see samples), all 2^(8n) contents; option containers: append model (container stores nothing)',
          'thorough': 'same lengths as the quick tier (larger bounds were not validated in the time available); 10x the translation-validation inputs and 900 s per query'}
OUTSIDE = ('buffers longer than the bound; whole stacks in one query (covered compositionally via the contract stubs); std::vector<PDUOption> storage of parsed options '
           '(append model; the real PDUOption constructor still copies each option); allocation failure; user-registered allocators; formation of out-of-object pointers that are not dereferenced')
ASSUMPTIONS = ['inner-layer construction is replaced by shim/stubs.h contract stubs (range asserted readable; result: malformed_packet or a minimal layer object)',
               'Internals::allocate<T> (user-registered allocators) returns 0: the registry is empty']
NRAND = {'quick': 40, 'thorough': 400}

# class -> (fixed header bytes before any variable part, extra quick bytes)
HEADER = {'EthernetII': 14, 'Dot3': 14, 'LLC': 3, 'SNAP': 8, 'Dot1Q': 4, 'MPLS': 4, 'SLL': 16, 'Loopback': 4, 'ARP': 28, 'UDP': 8, 'ICMP': 8, 'IPSecAH': 12, 'IPSecESP': 8,
          'VXLAN': 8, 'RTP': 12, 'STP': 35, 'BootP': 300, 'TCP': 20, 'IP': 20, 'IPv6': 40, 'ICMPv6': 8, 'PPPoE': 6, 'PKTAP': 108, 'PPI': 8, 'RawPDU': 0, 'DNS': 12,
          'RC4EAPOL': 48, 'RSNEAPOL': 99, 'DHCP': 240, 'DHCPv6': 4, 'RadioTap': 8,
          'Dot11': 10, 'Dot11Data': 24, 'Dot11QoSData': 26, 'Dot11Beacon': 36, 'Dot11ProbeRequest': 24, 'Dot11ProbeResponse': 36, 'Dot11AssocRequest': 28,
          'Dot11AssocResponse': 30, 'Dot11ReAssocRequest': 34, 'Dot11ReAssocResponse': 30, 'Dot11Authentication': 30, 'Dot11Deauthentication': 26, 'Dot11Disassoc': 26,
          'Dot11RTS': 16, 'Dot11PSPoll': 16, 'Dot11CFEnd': 16, 'Dot11EndCFAck': 16, 'Dot11Ack': 10, 'Dot11BlockAckRequest': 20, 'Dot11BlockAck': 151, 'Dot11Control': 10}
SKIP = {'Dot11ManagementFrame', 'Dot11ControlTA', 'EAPOL'}   # abstract: covered through their concrete subclasses
HEAVY = {'BootP', 'DHCP', 'PKTAP', 'Dot11BlockAck', 'RSNEAPOL'}
# calibrated on this sandbox (16 cores, 90 s / 4 GB per query): the longest buffer every shorter length of which is decided in the quick tier.
# Byte-walking parsers (option / extension / label / record loops) stop early; the thorough tier goes further (see THOROUGH_MAX).
QUICK_MAX = {'DHCP': 241, 'ICMPv6': 8, 'DNS': 14, 'Dot11Data': 24, 'Dot11QoSData': 13, 'ICMP': 8, 'IP': 20, 'IPv6': 41, 'LLC': 3, 'MPLS': 4, 'RadioTap': 3, 'TCP': 23}
THOROUGH_MAX = dict(QUICK_MAX)  # long fixed headers: fewer lengths in the quick tier

# classes whose constructor never builds an inner layer through a stub (RawPDU payload or none): one stub mode is enough
NO_INNER = {'TCP', 'UDP', 'ICMP', 'ICMPv6', 'ARP', 'IPSecESP', 'DNS', 'BootP', 'DHCP', 'DHCPv6', 'STP', 'RawPDU', 'RC4EAPOL', 'RSNEAPOL', 'LLC',
            'Dot11', 'Dot11Beacon', 'Dot11ProbeRequest', 'Dot11ProbeResponse', 'Dot11AssocRequest', 'Dot11AssocResponse', 'Dot11ReAssocRequest', 'Dot11ReAssocResponse',
            'Dot11Authentication', 'Dot11Deauthentication', 'Dot11Disassoc', 'Dot11RTS', 'Dot11PSPoll', 'Dot11CFEnd', 'Dot11EndCFAck', 'Dot11Ack', 'Dot11BlockAckRequest',
            'Dot11BlockAck', 'Dot11Control'}

MIN_UNWIND = {'BootP': 70, 'DHCP': 70}
EXTRA_UNWINDSET = {'DHCPv6': {'vp_memcpy.0': 18}}   # relay messages copy two 16-byte addresses   # fixed-size copies through the byte-loop memcpy model (64-byte vend / sname fields)
# self-described length fields are enumerated concretely (parameter P2), contents stay symbolic: (C++ assumption, values(L))
PIN = {
    # byte 12 = data offset (enumerated 0..15) << 4 | reserved nibble (fixed to 0: it takes no part in any length computation)
    'TCP': ('if (n > 12) b[12] = (uint8_t)(vp_param(2) << 4);', lambda L: range(16) if L > 12 else [0]),
}

# which lengths admit an accepted input (default: at least the fixed header)
ACCEPT = {'DHCPv6': lambda L, h: (True if L >= 8 else None) if L >= 4 else False, 'BootP': lambda L, h: None, 'DHCP': lambda L, h: None,
          'Dot11BlockAck': lambda L, h: None}

DISPATCH = {
    r'_ZN4Tins9Internals13pdu_from_flagENS_9Constants8Ethernet1eEPKhjb': 'vp_stub_dispatch4',
    r'_ZN4Tins9Internals13pdu_from_flagENS_9Constants2IP1eEPKhjb': 'vp_stub_dispatch4',
    r'_ZN4Tins9Internals17pdu_from_dlt_flagEiPKhjb': 'vp_stub_dispatch4',
    r'_ZN4Tins9Internals13pdu_from_flagENS_3PDU7PDUTypeEPKhj': 'vp_stub_dispatch3',
    r'_ZN4Tins9Internals8allocateINS_10EthernetIIEEEPNS_3PDUENS0_14pdu_tag_mapperIT_E4type15identifier_typeEPKhj': 'vp_stub_allocate16',
    r'_ZN4Tins9Internals8allocateINS_(2IP|4IPv6)EEEPNS_3PDUENS0_14pdu_tag_mapperIT_E4type15identifier_typeEPKhj': 'vp_stub_allocate8',
    r'_ZN4Tins5Dot1110from_bytesEPKhj': 'vp_stub_from_bytes',
    r'_ZN4Tins5EAPOL10from_bytesEPKhj': 'vp_stub_from_bytes',
    # append model for option containers
    r'_ZNSt6vectorIN4Tins9PDUOptionI\w+EESaIS\d_EE9push_backE(OS\d_|RKS\d_)': 'vp_stub_opt_append',
    r'_ZNSt6vectorIN4Tins9PDUOptionI\w+EESaIS\d_EE12emplace_backIJS\d_EEEvDpOT_': 'vp_stub_opt_append',
    r'_ZNSt6vectorIN4Tins9PDUOptionI\w+EESaIS\d_EE7reserveEm': 'vp_stub_opt_reserve',
    r'_ZNSt6vectorIN4Tins9PDUOptionIhNS0_3TCPEEESaIS3_EE12emplace_backIJRKNS2_11OptionTypesERPKhS9_EEEvDpOT_': 'vp_stub_tcp_emplace3',
    r'_ZNSt6vectorIN4Tins9PDUOptionIhNS0_3TCPEEESaIS3_EE12emplace_backIJRKNS2_11OptionTypesEiEEEvDpOT_': 'vp_stub_tcp_emplace2',
    r'_ZNSt6vectorIN4Tins9PDUOptionINS0_2IP17option_identifierES2_EESaIS4_EE12emplace_backIJS3_EEEvDpOT_': 'vp_stub_opt_append',
}


def shim_for(cls, header):
    return '''// generated by props/C01.py
#include "stubs.h"
#include <tins/tins.h>
#include <%s>
using namespace Tins;
extern "C" void vp_stub_tcp_emplace3(void* vec, const uint32_t* type, const uint8_t* const* first, const uint8_t* const* last) {
    (void)vec; TCP::option tmp((TCP::OptionTypes)*type, *first, *last); vp_opt_count++;   // the real PDUOption constructor copies [first,last)
}
extern "C" void vp_stub_tcp_emplace2(void* vec, const uint32_t* type, const int* len) {
    (void)vec; TCP::option tmp((TCP::OptionTypes)*type, (size_t)*len); vp_opt_count++;
}
H(h_c01_%s) {
    uint32_t n = vp_param(0);
    uint8_t* b = vp_buf(n);
    %s
    try {
        %s p(b, n);
        PDU& r = p;
        uint32_t hs = r.header_size(), ts = r.trailer_size(), sz = r.size();
        vp_assert(sz >= hs, "size() covers the header");
        vp_observe(hs); vp_observe(ts); vp_observe(sz); vp_observe(r.pdu_type());
        PDU* c = r.clone();
        vp_assert(c != 0 && c->pdu_type() == r.pdu_type(), "clone() yields an object of the same class");
        vp_assert(c->size() == sz, "clone() has the same size");
        delete c;
        vp_accept();
    } catch (malformed_packet&) {
    }
    vp_free(b);
    vp_witness();
}
''' % (header, cls, PIN.get(cls, ('', None))[0], cls)


def plan(tier):
    out = []
    for name, hdr, base, flag in tinsinfo.pdu_classes():
        if name in SKIP or name not in HEADER: continue
        h = HEADER[name]
        # redirect the from-buffer constructors of every other layer class (not K itself, not its bases, not RawPDU)
        anc = set(tinsinfo.ancestors(name)) | {name, 'RawPDU', 'PDU'}
        if name == 'LLC': anc.add('STP')
        red = dict(DISPATCH)
        others = [c[0] for c in tinsinfo.pdu_classes() if c[0] not in anc]
        red[r'_ZN4Tins(%s)C2EPKhj' % '|'.join(tinsinfo.mangled(o) for o in others)] = 'vp_stub_inner_ctor'
        extra = 8   # both tiers: larger lengths were not validated in the time available (the thorough tier differs by 10x more translation-validation inputs and full length ranges for long fixed headers)
        lens = list(range(0, h + extra + 1))
        if name in HEAVY: lens = [0, 1, h - 1, h, h + 1, h + 4, h + 8]
        elif h > 16: lens = sorted(set([0, 1, h // 2, h - 2, h - 1] + list(range(h, h + extra + 1))))
        if name == 'DHCP' and os.environ.get('C01_DHCP_LENS'): lens = [int(x) for x in os.environ['C01_DHCP_LENS'].split(',')]
        cap = (QUICK_MAX if tier == 'quick' else THOROUGH_MAX).get(name)
        if cap is not None: lens = [L for L in lens if L <= cap]
        out.append((name, hdr, h, red, lens))
    return out


def units(tier):
    return [Unit('c01_' + n, shim_text=shim_for(n, hdr), redirect=red, ctors=False, differential=False) for n, hdr, h, red, lens in plan(tier)]


def instances(tier):
    out = []
    for n, hdr, h, red, lens in plan(tier):
        pins = PIN.get(n, ('', lambda L: [0]))[1]
        for L, mode, pv in [(L, m, pv) for L in lens for m in ((0, 1, 2) if (L > h and n not in NO_INNER) else (2,)) for pv in pins(L)]:
            # every libtins loop over the variable part consumes >= 1 byte per iteration, and every variable-size copy is bounded by it;
            # the fill loop of the symbolic buffer needs L+1.  Too small a bound is reported by the unwinding assertions.
            uw = max(L - h, 0) + 3 + MIN_UNWIND.get(n, 0)
            out.append(Inst('c01_' + n, 'h_c01_' + n, params=(L, mode, pv), unwind=uw, unwindset=dict({'vp_buf.0': L + 1}, **EXTRA_UNWINDSET.get(n, {})), timeout=(90 if tier == 'quick' else 900), mem_gb=(4 if tier == 'quick' else 12), leak=True, accept=(None if (mode == 1 or n in PIN) else ACCEPT.get(n, lambda L, h: L >= h)(L, h)),
                            note='%s(buffer,%d): %d header bytes + %d, inner-stub mode %d' % (n, L, min(L, h), max(0, L - h), mode)))
    return out
