// C12: ownership under copy / move / clone / re-linking (DESIGN 5/C12)
#include "vp.h"
#include <utility>
#include <tins/pdu.h>
#include <tins/pdu_option.h>
#include <tins/rawpdu.h>
#include <tins/ipsec.h>
#include <tins/udp.h>
#include <tins/tcp.h>
#include <tins/packet.h>
using namespace Tins;

// ---------- (b) PDUOption special members: both representations (small buffer <= 8 bytes, heap above), data symbolic ----------
typedef PDUOption<uint8_t, TCP> Opt;
static Opt make_opt(uint8_t code, uint32_t n, uint8_t* bytes) { for (uint32_t i = 0; i < n; ++i) bytes[i] = vp_u8(); return Opt(code, bytes, bytes + n); }
static bool same(const Opt& o, uint8_t code, uint32_t n, const uint8_t* bytes) {
    bool e = o.option() == code && o.data_size() == n && o.length_field() == n;
    for (uint32_t i = 0; e && i < n; ++i) e = o.data_ptr()[i] == bytes[i];
    return e;
}
H(h_c12_opt_copy_ctor) {
    uint32_t n = vp_param(0); uint8_t bytes[16]; uint8_t code = vp_u8();
    Opt* a = new Opt(make_opt(code, n, bytes));
    Opt b(*a);
    vp_assert(same(b, code, n, bytes), "a copy-constructed option equals its source");
    vp_assert(n == 0 || b.data_ptr() != a->data_ptr(), "a copied option owns its own bytes");
    delete a;
    vp_assert(same(b, code, n, bytes), "the copy is unaffected by destroying the source");
    vp_witness();
}
H(h_c12_opt_copy_assign) {
    uint32_t n = vp_param(0), m = vp_param(1); uint8_t bytes[16], other[16]; uint8_t code = vp_u8();
    Opt* a = new Opt(make_opt(code, n, bytes));
    Opt c(make_opt(vp_u8(), m, other));
    c = *a;
    vp_assert(same(c, code, n, bytes), "a copy-assigned option equals its source (any previous representation of the target)");
    delete a;
    vp_assert(same(c, code, n, bytes), "the assigned copy is unaffected by destroying the source");
    vp_witness();
}
H(h_c12_opt_self_assign) {
    uint32_t n = vp_param(0); uint8_t bytes[16]; uint8_t code = vp_u8();
    Opt a(make_opt(code, n, bytes));
    Opt& alias = a;
    a = alias;
    vp_assert(same(a, code, n, bytes), "self-assignment leaves an option unchanged");
    vp_witness();
}
H(h_c12_opt_move) {
    uint32_t n = vp_param(0), m = vp_param(1); uint8_t bytes[16], other[16]; uint8_t code = vp_u8();
    Opt a(make_opt(code, n, bytes));
    Opt b(std::move(a));
    vp_assert(same(b, code, n, bytes), "a move-constructed option holds the source's contents");
    Opt c(make_opt(vp_u8(), m, other));
    c = std::move(b);
    vp_assert(same(c, code, n, bytes), "a move-assigned option holds the source's contents (any previous representation of the target)");
    // moved-from objects stay destructible and assignable
    b = c;
    vp_assert(same(b, code, n, bytes), "a moved-from option can be assigned again");
    vp_witness();
}

// ---------- (a) layer trees ----------
static bool forest_ok(const PDU* root) {
    // every child's parent link designates its owner, the root has none
    if (root->parent_pdu() != 0) return false;
    const PDU* p = root;
    for (int depth = 0; depth < 6 && p; ++depth) {
        const PDU* c = p->inner_pdu();
        if (c && c->parent_pdu() != p) return false;
        p = c;
    }
    return true;
}
static uint32_t depth_of(const PDU* p) { uint32_t d = 0; while (p && d < 8) { ++d; p = p->inner_pdu(); } return d; }
static bool same_chain(const PDU* a, const PDU* b) {
    for (int i = 0; i < 6; ++i) {
        if (!a || !b) return a == b;
        if (a == b) return false;                           // deep copy: no shared layer
        if (a->pdu_type() != b->pdu_type() || a->header_size() != b->header_size()) return false;
        a = a->inner_pdu(); b = b->inner_pdu();
    }
    return true;
}
static PDU* build3(uint8_t* pl) {   // IPSecESP / UDP / RawPDU(2 symbolic bytes), field values symbolic
    pl[0] = vp_u8(); pl[1] = vp_u8();
    IPSecESP* d = new IPSecESP(); d->spi(vp_u32()); d->seq_number(vp_u32());
    UDP u(vp_u16(), vp_u16());
    u.inner_pdu(RawPDU(pl, 2));
    d->inner_pdu(u);
    return d;
}
static PDU* build1() { return new UDP(vp_u16(), vp_u16()); }

H(h_c12_tree_stack_clone) {
    uint8_t pl[2];
    PDU* a = build3(pl);
    vp_assert(forest_ok(a) && depth_of(a) == 3, "stacking yields a chain whose parent links designate the owners");
    PDU* c = a->clone();
    vp_assert(forest_ok(c) && same_chain(a, c), "clone() is a deep, equal copy with sound parent links");
    PDU::serialization_type sa = a->serialize(), sc = c->serialize();
    bool eq = sa.size() == sc.size(); for (uint32_t i = 0; eq && i < sa.size(); ++i) eq = sa[i] == sc[i];
    vp_assert(eq, "a clone serializes to the same bytes as its source");
    delete a;
    vp_assert(forest_ok(c) && depth_of(c) == 3, "the clone survives destruction of its source");
    delete c;
    vp_witness();
}
H(h_c12_tree_copy_assign_shorter) {
    // assign a 1-layer packet over a 3-layer one: the target must become equal to the source
    uint8_t pl[2];
    PDU* longer = build3(pl);
    UDP src(vp_u16(), vp_u16());
    IPSecESP* target = static_cast<IPSecESP*>(longer);
    IPSecESP shorter; shorter.spi(vp_u32());                // no inner layer
    *target = shorter;
    vp_assert(forest_ok(target), "copy assignment keeps parent links sound");
    vp_assert(depth_of(target) == depth_of(&shorter), "after copy assignment the target has the same layers as the source (also when the source has fewer)");
    delete longer;
    vp_witness();
}
H(h_c12_tree_copy_assign_longer) {
    uint8_t pl[2];
    PDU* longer = build3(pl);
    IPSecESP target; target.spi(vp_u32());
    target = *static_cast<IPSecESP*>(longer);
    vp_assert(forest_ok(&target) && same_chain(&target, longer), "copy assignment from a longer packet yields a deep, equal copy");
    delete longer;
    vp_assert(depth_of(&target) == 3 && forest_ok(&target), "the assigned copy survives destruction of its source");
    vp_witness();
}
H(h_c12_tree_move) {
    uint8_t pl[2];
    PDU* a = build3(pl);
    IPSecESP moved(std::move(*static_cast<IPSecESP*>(a)));
    vp_assert(forest_ok(&moved) && depth_of(&moved) == 3, "move construction transfers the child chain and re-targets the parent link");
    vp_assert(a->inner_pdu() == 0, "a moved-from layer owns nothing");
    IPSecESP again; again.spi(vp_u32());
    again.inner_pdu(new UDP(1, 2));
    again = std::move(moved);
    vp_assert(forest_ok(&again) && depth_of(&again) == 3, "move assignment transfers the child chain and frees the target's old one");
    vp_assert(forest_ok(&moved), "whatever a moved-from layer still owns has its parent link pointing at it");
    *static_cast<IPSecESP*>(a) = again;                       // reuse the moved-from object
    vp_assert(forest_ok(a) && depth_of(a) == 3, "a moved-from layer can be assigned and used again");
    delete a;
    vp_witness();
}
H(h_c12_tree_relink) {
    uint8_t pl[2];
    PDU* a = build3(pl);
    PDU* child = a->release_inner_pdu();
    vp_assert(child != 0 && child->parent_pdu() == 0 && a->inner_pdu() == 0, "release_inner_pdu hands the child chain to the caller as a root");
    vp_assert(forest_ok(child) && depth_of(child) == 2, "the released chain is intact");
    PDU* b = build1();
    b->inner_pdu(child);                                    // re-attach under another owner
    vp_assert(forest_ok(b) && depth_of(b) == 3, "re-attaching a released chain gives it to the new owner");
    a->inner_pdu(new RawPDU(pl, 1));                        // replace: the previous (none) child is freed, new one owned
    a->inner_pdu(new RawPDU(pl, 2));                        // replace again: the first replacement must be freed exactly once
    vp_assert(forest_ok(a) && depth_of(a) == 2, "replacing a child frees the old one and links the new one");
    delete a; delete b;
    vp_witness();
}
H(h_c12_packet_wrapper) {
    uint8_t pl[2];
    PDU* a = build3(pl);
    Packet p1(a, Timestamp(), Packet::own_pdu());          // takes ownership
    Packet p2(p1);                                          // clones
    vp_assert(p2.pdu() != p1.pdu() && same_chain(p1.pdu(), p2.pdu()) && forest_ok(p2.pdu()), "copying a Packet clones the whole tree");
    Packet p3(std::move(p1));                               // steals
    vp_assert(p1.pdu() == 0 && p3.pdu() == a, "moving a Packet transfers the tree");
    p2 = p3;                                                // copy-assign over an owning packet: old tree freed
    vp_assert(p2.pdu() != p3.pdu() && same_chain(p2.pdu(), p3.pdu()), "copy-assigning a Packet clones and frees the previous tree");
    Packet p4(build1(), Timestamp(), Packet::own_pdu());
    p4 = std::move(p2);                                     // move-assign over an owning packet: old tree freed exactly once
    vp_assert(p4.pdu() != 0 && same_chain(p4.pdu(), p3.pdu()) && forest_ok(p4.pdu()), "move-assigning a Packet transfers the tree");
    vp_assert(p2.pdu() == 0 || p2.pdu() != p4.pdu(), "after a move assignment the two packets do not own the same tree");
    PDU* raw = p3.release_pdu();
    vp_assert(raw == a && p3.pdu() == 0, "release_pdu hands the tree to the caller");
    delete raw;
    vp_witness();
}
