from driver import Unit, Inst
import C01
def units(tier): return [Unit('dbg', shim='dbg.cpp', ctors=False, redirect=[p for p in C01.plan('quick') if p[0]=='TCP'][0][3], differential=False)]
def instances(tier): return [Inst('dbg', h, params=(20,), unwind=22, timeout=60, leak=lk) for h in ('h_dbg_g','h_dbg_h','h_dbg_i') for lk in (False,)]
