// C06(a)/C19: RFC 1982 comparison kernel
#include "vp.h"
#include <tins/detail/sequence_number_helpers.h>
using namespace Tins::Internals;

// reference: RFC 1982 serial number arithmetic on 32 bits, via signed distance
static int ref_cmp(uint32_t a, uint32_t b) {
    if (a == b) return 0;
    uint32_t d = b - a;             // distance a -> b
    if (d == 0x80000000u) return 2; // undefined by the RFC
    return d < 0x80000000u ? -1 : 1;
}

H(h_seq_compare_rfc1982) {
    uint32_t a = vp_u32(), b = vp_u32();
    int r = seq_compare(a, b);
    int want = ref_cmp(a, b);
    vp_assert(r == -1 || r == 0 || r == 1, "seq_compare returns -1, 0 or 1");
    vp_assert((r == 0) == (a == b), "seq_compare is 0 exactly on equal numbers");
    if (want != 2) vp_assert(r == want, "seq_compare agrees with RFC 1982 when the distance is below 2^31");
    vp_witness();
}
H(h_seq_compare_antisym) {
    uint32_t a = vp_u32(), b = vp_u32();
    vp_assume(a - b != 0x80000000u);
    vp_assert(seq_compare(a, b) == -seq_compare(b, a), "seq_compare is antisymmetric off the 2^31 diagonal");
    vp_witness();
}
H(h_seq_compare_shift) {
    // translation invariance: comparison depends only on the distance (wrap-around soundness)
    uint32_t a = vp_u32(), b = vp_u32(), k = vp_u32();
    vp_assume(a - b != 0x80000000u);
    vp_assert(seq_compare(a, b) == seq_compare(a + k, b + k), "seq_compare is invariant under a common shift (any ISN)");
    vp_witness();
}
