#include "stubs.h"
#include <tins/tins.h>
using namespace Tins;
H(h_dbg_g) {  // clone, no delete
    uint32_t n = vp_param(0); uint8_t* b = vp_buf(n);
    try { TCP p(b, n); TCP* c = p.clone(); vp_assert(c->header_size() == 20, "hs"); vp_witness(); } catch (malformed_packet&) {}
}
H(h_dbg_h) {  // clone + non-virtual delete
    uint32_t n = vp_param(0); uint8_t* b = vp_buf(n);
    try { TCP p(b, n); TCP* c = p.clone(); c->TCP::~TCP(); vp_witness(); } catch (malformed_packet&) {}
}
H(h_dbg_i) {  // clone + virtual delete
    uint32_t n = vp_param(0); uint8_t* b = vp_buf(n);
    try { TCP p(b, n); PDU* c = p.clone(); delete c; vp_witness(); } catch (malformed_packet&) {}
}
