"""C06 - TCP stream reassembly delivers exactly the sent byte stream."""
from driver import Unit, Inst
EXPLANATION = ('(a) Internals::seq_compare for all 2^64 pairs: result in {-1,0,1}, zero exactly on equality, agrees with RFC 1982 below a distance of 2^31, antisymmetric, invariant under a common '
               'shift (so any initial sequence number, including ones that wrap). (b) TCPIP::DataTracker (process_payload, store_payload, erase_iterator) on std::map / std::vector from the real '
               'headers: k segments of a W-byte stream whose (offset,length) shapes and initial sequence number (8 values bracketing 0, 2^31 and 2^32) are enumerated concretely while the stream bytes are symbolic; after every '
               'segment the delivered bytes, the delivery point, the buffered chunks and total_buffered_bytes are compared with a bitmap model.')
BOUNDS = {'quick': 'seq_compare: all pairs; tracker: k=2 segments, every pair of shapes inside W=3 stream bytes x ISN in {0xfffffffd, 0xffffffff, 0}; k=3 segments at ISN 0xfffffffe: every triple of shapes inside 3 stream bytes and every triple that completes a 4-byte stream; any stream bytes',
          'thorough': 'tracker: k=2 with W=4 (100 pairs) x 8 ISNs; k=3: the quick set of triples x ISN in {0xfffffffe, 0, 0x80000000}'}
OUTSIDE = 'the legacy TCPStream follower; Flow::process_packet callbacks; stale segments before the ISN; streams longer than W; more than 3 segments'
ASSUMPTIONS = ['the four libstdc++.so red-black-tree primitives are engine/models/rbtree.c (a line-by-line C port of libstdc++ tree.cc)']
NRAND = {'quick': 30, 'thorough': 30}
def full(W, *segs):
    cov = set()
    for x in segs: cov |= set(range(x >> 4, (x >> 4) + (x & 15)))
    return cov == set(range(W))
def shapes(W): return [(o << 4) | l for o in range(W) for l in range(1, W - o + 1)]
def units(tier):
    return [Unit('seq', shim='seq.cpp'), Unit('c06', shim='c06.cpp', models=['engine/models/rbtree.c'], ctors=False)]
def instances(tier):
    out = [Inst('seq', f, timeout=60) for f in ('h_seq_compare_rfc1982', 'h_seq_compare_antisym', 'h_seq_compare_shift')]
    if tier == 'quick': W, isns = 3, (5, 7, 0)
    else: W, isns = 4, range(8)
    for n in isns:
        for a in shapes(W):
            for b in shapes(W):
                out.append(Inst('c06', 'h_c06_tracker2', params=(W | (n << 8), a, b), unwind=10, timeout=300, mem_gb=4,
                                note='ISN #%d, segments (off,len) = (%d,%d) then (%d,%d) of a %d-byte stream' % (n, a >> 4, a & 15, b >> 4, b & 15, W)))
    # three segments: needed for "a later chunk replaces / outlives a buffered one before the gap closes" and for stale chunks around the wrap
    W3, isns3 = (4, (6,)) if tier == 'quick' else (4, (6, 0, 3))
    for n in isns3:
        for a in shapes(W3):
            for b in shapes(W3):
                for c in shapes(W3):
                    if not full(W3, a, b, c) and not (max((x >> 4) + (x & 15) for x in (a, b, c)) <= 3): continue   # triples that complete the 4-byte stream, plus all triples inside 3 bytes (all 1000 triples per ISN: not calibrated)
                    out.append(Inst('c06', 'h_c06_tracker3', params=(W3 | (n << 8), a, b, c), unwind=10, timeout=300, mem_gb=4,
                                    note='ISN #%d, three segments %s of a %d-byte stream' % (n, [(x >> 4, x & 15) for x in (a, b, c)], W3)))
    return out
