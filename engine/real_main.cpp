// main() of the real (g++, sanitized) build of a shim: runs one harness, reports like rt.c's native main.
#include <cstdio>
#include <cstring>
#include <exception>
#include <typeinfo>
extern "C" void vp_finish(const char* what, const char* msg);
typedef void (*vp_hfn)(void);
struct vp_entry { const char* name; vp_hfn fn; };
extern "C" vp_entry vp_entries[];
int main(int argc, char** argv) {
    if (argc < 2) return 2;
    for (vp_entry* e = vp_entries; e->name; ++e) {
        if (!strcmp(e->name, argv[1])) {
            try { e->fn(); }
            catch (std::exception& ex) { vp_finish("UNCAUGHT", typeid(ex).name()); return 0; }
            catch (...) { vp_finish("UNCAUGHT", "?"); return 0; }
            vp_finish("OK", "");
            return 0;
        }
    }
    return 2;
}
