// C05 kernels: one's-complement sums and CRC-32 against references that do not share libtins' arithmetic
#include "vp.h"
#include <tins/utils/checksum_utils.h>
#include <tins/ip_address.h>
#include <tins/ipv6_address.h>
using namespace Tins;

static uint16_t fold(uint64_t acc) { while (acc >> 16) acc = (acc & 0xffff) + (acc >> 16); return (uint16_t)acc; }
// RFC 1071 as a receiver computes it: big-endian 16-bit words, odd trailing byte padded with zero, end-around carry
static uint16_t ref_sum_be(const uint8_t* p, uint32_t n) {
    uint64_t acc = 0;
    for (uint32_t i = 0; i + 1 < n; i += 2) acc += ((uint32_t)p[i] << 8) | p[i + 1];
    if (n & 1) acc += (uint32_t)p[n - 1] << 8;
    return fold(acc);
}
H(h_c05_sum_range) {
    uint32_t n = vp_param(0);
    uint8_t* b = vp_buf(n);
    uint16_t r = Utils::sum_range(b, b + n);
    uint16_t be = (uint16_t)((r << 8) | (r >> 8));      // libtins sums host-order (little-endian) words; the wire value is the byte-swapped sum
    vp_assert(be == ref_sum_be(b, n), "sum_range is the RFC 1071 one's-complement sum of the bytes (big-endian words, end-around carry)");
    vp_assert(Utils::do_checksum(b, b + n) == __builtin_bswap32((uint32_t)r), "do_checksum is sum_range converted to network byte order");
    vp_free(b);
    vp_witness();
}
// standard CRC-32 (IEEE 802.3): reflected, polynomial 0xEDB88320, initial value and final xor 0xFFFFFFFF, bit-serial
static uint32_t ref_crc32(const uint8_t* p, uint32_t n) {
    uint32_t crc = 0xffffffffu;
    for (uint32_t i = 0; i < n; ++i) {
        crc ^= p[i];
        for (int k = 0; k < 8; ++k) crc = (crc >> 1) ^ (0xEDB88320u & (0u - (crc & 1u)));
    }
    return ~crc;
}
H(h_c05_crc32) {
    uint32_t n = vp_param(0);
    uint8_t* b = vp_buf(n);
    uint32_t c = Utils::crc32(b, n);
    vp_assert(c == ref_crc32(b, n), "crc32 is the IEEE 802.3 CRC-32 of the bytes");
    vp_free(b);
    vp_witness();
}
H(h_c05_pseudo_v4) {
    uint8_t s[4], d[4];
    for (int i = 0; i < 4; ++i) { s[i] = vp_u8(); d[i] = vp_u8(); }
    uint16_t len = vp_u16(), proto = vp_u16();
    uint32_t sx, dx; __builtin_memcpy(&sx, s, 4); __builtin_memcpy(&dx, d, 4);
    uint32_t r = Utils::pseudoheader_checksum(IPv4Address(sx), IPv4Address(dx), len, proto);
    // receiver's view: src, dst, zero+protocol, length as big-endian words
    uint64_t acc = ((uint32_t)s[0] << 8 | s[1]) + ((uint32_t)s[2] << 8 | s[3]) + ((uint32_t)d[0] << 8 | d[1]) + ((uint32_t)d[2] << 8 | d[3]) + proto + len;
    uint16_t f = fold(r);
    vp_assert((uint16_t)((f << 8) | (f >> 8)) == fold(acc), "IPv4 pseudo-header sum equals the big-endian word sum of src, dst, protocol and length");
    vp_witness();
}
H(h_c05_pseudo_v6) {
    uint8_t s[16], d[16];
    for (int i = 0; i < 16; ++i) { s[i] = vp_u8(); d[i] = vp_u8(); }
    uint16_t len = vp_u16(), proto = vp_u16();
    uint32_t r = Utils::pseudoheader_checksum(IPv6Address(s), IPv6Address(d), len, proto);
    uint64_t acc = (uint64_t)proto + len;
    for (int i = 0; i < 16; i += 2) { acc += ((uint32_t)s[i] << 8) | s[i + 1]; acc += ((uint32_t)d[i] << 8) | d[i + 1]; }
    uint16_t f = fold(r);
    vp_assert((uint16_t)((f << 8) | (f >> 8)) == fold(acc), "IPv6 pseudo-header sum equals the big-endian word sum of src, dst, next-header and length");
    vp_witness();
}
