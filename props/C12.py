"""C12 - packet object trees keep sound ownership under copy, move, clone and re-linking."""
from driver import Unit, Inst
EXPLANATION = ('(b) PDUOption special members (copy/move construction and assignment, self-assignment, destruction) for every data length 0..12 of source and target - both the small-buffer and the heap '
               'representation - with symbolic bytes; (a) a fixed list of tree programs over Dot1Q / UDP / RawPDU with symbolic field values: stack + clone, copy-assign shorter-over-longer and '
               'longer-over-shorter, move construct / move assign / reuse of the moved-from object, release + re-attach + replace, Packet wrap / copy / move / copy-assign / release. After each step the '
               'harness walks the forest (child->parent == owner, roots parentless, deep copies share no layer, equal layer types / sizes / serialization); CBMC adds double-free, invalid-free and '
               '(--memory-leak-check) leak detection at exit.')
BOUNDS = {'quick': 'options: source length n in {0,1,8,9,12} x target length m in {0,8,9}; 6 tree programs, chains of <= 3 layers', 'thorough': 'options: n in 0..12 x m in 0..12'}
OUTSIDE = 'arbitrary programs (only the listed ones); the ~60 other layer classes (their clone() is `new T(*this)`; Dot11Control lacked the override: fixed, see known_findings)'
ASSUMPTIONS = []
NRAND = {'quick': 60, 'thorough': 300}
def units(tier): return [Unit('c12', shim='c12.cpp', ctors=False)]
def instances(tier):
    q = tier == 'quick'
    ns = (0, 1, 8, 9, 12) if q else range(13)
    ms = (0, 8, 9) if q else range(13)
    out = []
    for n in ns:
        out.append(Inst('c12', 'h_c12_opt_copy_ctor', params=(n,), unwind=16, timeout=300, mem_gb=4, leak=True))
        out.append(Inst('c12', 'h_c12_opt_self_assign', params=(n,), unwind=16, timeout=300, mem_gb=4, leak=True))
        for m in ms:
            out.append(Inst('c12', 'h_c12_opt_copy_assign', params=(n, m), unwind=16, timeout=300, mem_gb=4, leak=True))
            out.append(Inst('c12', 'h_c12_opt_move', params=(n, m), unwind=16, timeout=300, mem_gb=4, leak=True))
    for f in ('h_c12_tree_stack_clone', 'h_c12_tree_copy_assign_shorter', 'h_c12_tree_copy_assign_longer', 'h_c12_tree_move', 'h_c12_tree_relink', 'h_c12_packet_wrapper'):
        out.append(Inst('c12', f, unwind=24, unwindset={'vp_memset.0': 40, 'vp_memcpy.0': 40}, timeout=600, mem_gb=6, leak=True, recursion=5))
    return out
