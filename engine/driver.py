#!/usr/bin/env python3
"""Driver: /repo sources -> clang IR -> ir2c -> CBMC; translation validation; replay; evidence.
Stdlib only.  See DESIGN.md section 2 and 4."""
import os, sys, re, json, time, shutil, subprocess, hashlib, tempfile, atexit, signal, resource
from concurrent.futures import ThreadPoolExecutor, as_completed

VERIF = os.path.dirname(os.path.dirname(os.path.abspath(__file__)))
ENGINE = os.path.join(VERIF, 'engine')
REPO = os.environ.get('VERIF_REPO', '/repo')
NCPU = int(os.environ.get('VERIF_JOBS', '16'))
CXXDEFS = ['-std=c++11', '-I' + REPO + '/include', '-I' + ENGINE, '-DHAVE_PCAP_IMMEDIATE_MODE=1', '-DHAVE_PCAP_TIMESTAMP_PRECISION=1',
           '-Dtins_EXPORTS', '-DNDEBUG', '-DLIBTINS_VERIF']
# no instcombine (type-punned wide accesses) and no simplifycfg (it speculates instructions into selects, which turns guarded source-level
# shifts/loads into unconditional ones and would make CBMC's undefined-behaviour checks fire on code the source never executes)
OPT_PIPE = 'function(sroa,early-cse,instsimplify),cgscc(inline),function(sroa,early-cse,instsimplify),globaldce'


# never part of any claim: sending packets / waiting for replies (sockets, libpcap)
STUB_SIGS = {
    'vp_stub_inner_ctor': ('void', ['void*', 'const uint8_t*', 'uint32_t']),
    'vp_stub_dispatch4': ('Tins::PDU*', ['uint32_t', 'const uint8_t*', 'uint32_t', 'bool']),
    'vp_stub_dispatch3': ('Tins::PDU*', ['uint32_t', 'const uint8_t*', 'uint32_t']),
    'vp_stub_from_bytes': ('Tins::PDU*', ['const uint8_t*', 'uint32_t']),
    'vp_stub_allocate16': ('Tins::PDU*', ['uint16_t', 'const uint8_t*', 'uint32_t']),
    'vp_stub_allocate8': ('Tins::PDU*', ['uint8_t', 'const uint8_t*', 'uint32_t']),
    'vp_stub_opt_append': ('void', ['void*', 'void*']),
    'vp_stub_inner_ctor_raw': ('void', ['void*', 'const uint8_t*', 'uint32_t']),
    'vp_stub_dispatch4_raw': ('Tins::PDU*', ['uint32_t', 'const uint8_t*', 'uint32_t', 'bool']),
    'vp_stub_dispatch3_raw': ('Tins::PDU*', ['uint32_t', 'const uint8_t*', 'uint32_t']),
    'vp_stub_from_bytes_raw': ('Tins::PDU*', ['const uint8_t*', 'uint32_t']),
    'vp_stub_opt_reserve': ('void', ['void*', 'uint64_t']),
    'vp_stub_tcp_emplace3': ('void', ['void*', 'const uint32_t*', 'const uint8_t* const*', 'const uint8_t* const*']),
    'vp_stub_tcp_emplace2': ('void', ['void*', 'const uint32_t*', 'const int*']),
}
DEFAULT_STUBS = [r'_ZN4Tins\w+4sendERNS_12PacketSenderERKNS_16NetworkInterfaceE', r'_ZN4Tins\w+13recv_responseERNS_12PacketSenderERKNS_16NetworkInterfaceE',
                 r'_ZN4Tins12PacketSender\w+', r'_ZN4Tins16NetworkInterface\w+', r'_ZNK4Tins16NetworkInterface\w+']


def sh(cmd, **kw):
    r = subprocess.run(cmd, stdout=subprocess.PIPE, stderr=subprocess.PIPE, universal_newlines=True, **kw)
    return r


def must(cmd, **kw):
    r = sh(cmd, **kw)
    if r.returncode != 0:
        raise RuntimeError('command failed (%d): %s\n%s\n%s' % (r.returncode, ' '.join(cmd)[:2000], r.stdout[-3000:], r.stderr[-3000:]))
    return r


class Unit:
    """One translated unit: a shim (C++ harness entry points) linked with all of libtins, pruned to the cone."""
    def __init__(self, name, shim=None, shim_text=None, stubs=(), models=(), differential=True, extra_ll_flags=(), ctors=True, redirect=None):
        self.name = name; self.shim = shim; self.shim_text = shim_text
        self.stubs = list(stubs); self.models = list(models); self.differential = differential
        self.extra_ll_flags = list(extra_ll_flags); self.ctors = ctors; self.redirect = dict(redirect or {})


class Inst:
    """One CBMC query: harness function + concrete parameters + bounds."""
    def __init__(self, unit, fn, params=(), unwind=None, unwindset=None, timeout=120, mem_gb=12, flags=(), witness=True,
                 note='', objbits=None, ladder=None, defines=(), leak=False, accept=None, recursion=3, rec_extra=None):
        self.unit = unit; self.fn = fn; self.params = tuple(params); self.unwind = unwind; self.unwindset = dict(unwindset or {})
        self.timeout = timeout; self.mem_gb = mem_gb; self.flags = list(flags); self.witness = witness; self.note = note
        self.objbits = objbits; self.defines = list(defines); self.leak = leak; self.accept = accept; self.recursion = recursion; self.rec_extra = dict(rec_extra or {})

    @property
    def id(self):
        return self.fn + ('' if not self.params else '[' + ','.join(map(str, self.params)) + ']')


class Build:
    def __init__(self):
        base = os.environ.get('VERIF_SCRATCH')
        if base:
            os.makedirs(base, exist_ok=True)
            self.dir = tempfile.mkdtemp(prefix='run.', dir=base)
        else:
            self.dir = tempfile.mkdtemp(prefix='verif.', dir='/var/tmp')
        if not os.environ.get('VERIF_KEEP'):
            atexit.register(lambda: shutil.rmtree(self.dir, ignore_errors=True))
        self.units = {}
        self.src_hash = None
        self.t_build = 0.0

    # ---- whole-library compile (every run, from the working tree) ----
    def compile_all(self, native=True):
        t0 = time.time()
        dc = os.environ.get('VERIF_DEVCACHE')   # development only: reuse a previous library build (never set by MANIFEST commands)
        if dc and os.path.exists(dc + '/state.pickle'):
            import pickle
            st = pickle.load(open(dc + '/state.pickle', 'rb'))
            self.__dict__.update(st); self.dir_lib = dc
            for k in ('all2.bc',): os.symlink(dc + '/' + k, self.dir + '/' + k)
            return
        srcs = []
        for root, _, files in os.walk(os.path.join(REPO, 'src')):
            for f in sorted(files):
                if f.endswith('.cpp'): srcs.append(os.path.join(root, f))
        srcs.sort()
        srcs.append(os.path.join(ENGINE, 'stdlib_inst.cpp'))
        h = hashlib.sha256()
        for root in (os.path.join(REPO, 'src'), os.path.join(REPO, 'include')):
            for r, _, files in sorted(os.walk(root)):
                for f in sorted(files):
                    p = os.path.join(r, f)
                    h.update(p.encode()); h.update(open(p, 'rb').read())
        self.src_hash = h.hexdigest()
        os.makedirs(self.dir + '/ll', exist_ok=True); os.makedirs(self.dir + '/obj', exist_ok=True)
        jobs = []
        for s in srcs:
            tag = os.path.relpath(s, REPO + '/src').replace('/', '_')[:-4] if s.startswith(REPO) else 'vp_' + os.path.basename(s)[:-4]
            jobs.append(['clang++-14'] + CXXDEFS + ['-O1', '-Xclang', '-disable-llvm-passes', '-gline-tables-only', '-w', '-S', '-emit-llvm', s, '-o', '%s/ll/%s.ll' % (self.dir, tag)])
            if native and s.startswith(REPO):
                jobs.append(['g++'] + CXXDEFS + ['-O1', '-g1', '-fsanitize=address,undefined', '-fno-sanitize=vptr', '-fno-sanitize-recover=undefined', '-fno-omit-frame-pointer', '-w', '-c', s, '-o', '%s/obj/%s.o' % (self.dir, tag)])
        with ThreadPoolExecutor(NCPU) as ex:
            for r in ex.map(must, jobs): pass
        lls = sorted(self.dir + '/ll/' + f for f in os.listdir(self.dir + '/ll'))
        must(['llvm-link-14'] + lls + ['-o', self.dir + '/all.bc'])
        self.objs = sorted(self.dir + '/obj/' + f for f in os.listdir(self.dir + '/obj')) if native else []
        # one text pass over the linked library: resolve aliases, drop comdats and llvm.global_ctors, apply the default stubs
        must(['llvm-dis-14', self.dir + '/all.bc', '-o', self.dir + '/all.ll'])
        text = open(self.dir + '/all.ll').read()
        text, self.ctor_names = self._normalise(text)
        self.alias = dict(Build._last_alias)
        text, _ = self._stub(text, DEFAULT_STUBS, required=False)
        self.all_text = text
        open(self.dir + '/all2.ll', 'w').write(text)
        must(['llvm-as-14', self.dir + '/all2.ll', '-o', self.dir + '/all2.bc'])
        self.refs, self.gl = self._refgraph(text)
        self.t_build += time.time() - t0
        if dc:
            import pickle
            os.makedirs(dc, exist_ok=True)
            for k in ('all2.bc',): shutil.copy(self.dir + '/' + k, dc + '/' + k)
            shutil.rmtree(dc + '/obj', ignore_errors=True); shutil.copytree(self.dir + '/obj', dc + '/obj')
            self.objs = sorted(dc + '/obj/' + f for f in os.listdir(dc + '/obj'))
            pickle.dump(dict(alias=self.alias, all_text=self.all_text, ctor_names=self.ctor_names, refs=self.refs, gl=self.gl, objs=self.objs, src_hash=self.src_hash), open(dc + '/state.pickle', 'wb'))

    @staticmethod
    def _normalise(text, alias=None):
        alias = dict(alias or {})
        def _al(m):
            alias[m.group(1)] = m.group(2); return ''
        text = re.sub(r'^@("[^"]+"|[\w.$]+) = [^\n]*\balias [^\n]*? @("[^"]+"|[\w.$]+)\n', _al, text, flags=re.M)
        if alias:
            text = re.sub(r'@("[^"]+"|[\w.$]+)', lambda m: '@' + alias.get(m.group(1), m.group(1)), text)
        m = re.search(r'^@llvm\.global_ctors = .*\n', text, re.M)
        ctor_names = re.findall(r'void \(\)\* @("[^"]+"|[\w.$]+)', m.group(0)) if m else []
        if m: text = text[:m.start()] + text[m.end():]
        for c in ctor_names:   # keep static constructors nameable (they are selected per unit, see _needed_ctors)
            text = re.sub(r'^define internal (void @%s\()' % re.escape(c), r'define \1', text, flags=re.M)
        text = re.sub(r'^\$("[^"]+"|[\w.$]+) = comdat \w+\n', '', text, flags=re.M)
        text = re.sub(r',? comdat(\(\$("[^"]+"|[\w.$]+)\))?(?=[ ,\n])', '', text)
        seen = set()
        def _dd(m):
            if m.group(1) in seen: return ''
            seen.add(m.group(1)); return m.group(0)
        if alias: text = re.sub(r'^declare [^\n]*?@("[^"]+"|[\w.$]+)\([^\n]*\n', _dd, text, flags=re.M)
        Build._last_alias = alias
        return text, ctor_names

    @staticmethod
    def _stub(text, patterns, required=True):
        rxs = [re.compile(p) for p in patterns]
        hits = [0] * len(rxs); kill = []
        def _one(m):
            name = m.group(2)
            for i, rx in enumerate(rxs):
                if rx.fullmatch(name):
                    hits[i] += 1; kill.append(name)
                    hdr = m.group(1)
                    hdr = re.sub(r'^define', 'declare', hdr)
                    hdr = re.sub(r'\b(internal|private|linkonce_odr|linkonce|weak_odr|weak|available_externally|dso_local) ', '', hdr)
                    hdr = re.sub(r' personality .*?\)(?= |$)', '', hdr)
                    hdr = re.sub(r' section "[^"]*"', '', hdr)
                    hdr = re.sub(r' ![a-z]+ !\d+', '', hdr)
                    hdr = re.sub(r'\s*\{\s*$', '', hdr)
                    return hdr + '\n'
            return m.group(0)
        text = re.sub(r'^(define [^\n]*?@("[^"]+"|[\w.$]+)\([^\n]*\{)\n.*?^\}\n', _one, text, flags=re.M | re.S)
        if required:
            for i, pat in enumerate(patterns):
                if not hits[i]: raise RuntimeError('stub pattern matches nothing: ' + pat)
        return text, kill

    @staticmethod
    def _refgraph(text):
        refs = {}; gl = {}
        for fm in re.finditer(r'^define [^@]*@("[^"]+"|[\w.$]+)\(.*?\n\}\n', text, re.M | re.S):
            refs[fm.group(1)] = set(re.findall(r'@("[^"]+"|[\w.$]+)', fm.group(0))) - {fm.group(1)}
        for gm in re.finditer(r'^@("[^"]+"|[\w.$]+) = (.*)$', text, re.M):
            gl[gm.group(1)] = set(re.findall(r'@("[^"]+"|[\w.$]+)', gm.group(2)))
        return refs, gl

    # ---- per-unit: link shim, stub, prune to the cone, translate ----
    def build_unit(self, u, native=True):
        t0 = time.time()
        d = os.path.join(self.dir, u.name); os.makedirs(d, exist_ok=True)
        shim_cpp = os.path.join(d, 'shim.cpp')
        if u.shim_text is not None:
            open(shim_cpp, 'w').write(u.shim_text)
        else:
            shutil.copy(os.path.join(VERIF, 'shim', u.shim), shim_cpp)
        if u.redirect:
            # contract stubs: the library body is deleted and the shim defines an extern "C" function with the same (mangled) name
            # that forwards to the stub named in u.redirect (signatures in STUB_SIGS)
            tr = ['// ---- trampolines generated by engine/driver.py (own TU: no libtins headers, so no clash with inline template instantiations) ----', '#include <stdint.h>', 'extern "C" {']
            for tname, (tret, targs) in sorted(STUB_SIGS.items()): tr.append('%s %s(%s);' % ('void*' if tret.endswith('*') else tret, tname, ', '.join(targs)))
            LT = {'i1': 'bool', 'i8': 'uint8_t', 'i16': 'uint16_t', 'i32': 'uint32_t', 'i64': 'uint64_t', 'void': 'void'}
            for m in re.finditer(r'^define ([^@\n]*)@("[^"]+"|[\w.$]+)\(([^\n]*)\) [^\n]*\{$', self.all_text, re.M):
                name = m.group(2)
                for pat, target in u.redirect.items():
                    if not re.fullmatch(pat, name): continue
                    ret_ir = m.group(1).split()
                    ret_ir = [w for w in ret_ir if w not in ('internal', 'linkonce_odr', 'weak_odr', 'dso_local', 'noundef', 'nonnull', 'zeroext', 'signext', 'hidden', 'available_externally', 'weak') and not w.startswith('align') and not w.startswith('dereferenceable')]
                    rt_ = ret_ir[-1] if ret_ir else 'void'
                    rct = LT.get(rt_, 'void*')
                    params = []
                    depth = 0; cur = ''
                    for ch in m.group(3) + ',':
                        if ch == ',' and depth == 0:
                            if cur.strip(): params.append(cur.strip())
                            cur = ''
                        else:
                            if ch in '(<[{': depth += 1
                            if ch in ')>]}': depth -= 1
                            cur += ch
                    cts = []
                    for p_ in params:
                        p_ = re.sub(r'"[^"]*"', 'Q', p_)
                        ty0 = p_.split()[0]
                        cts.append('void*' if ('*' in ty0 or ty0.endswith('*')) else LT.get(ty0, 'void*'))
                    tret, targs = STUB_SIGS[target]
                    if tret.endswith('*'): tret = 'void*'
                    call = '%s(%s)' % (target, ', '.join('(%s)a%d' % (targs[i], i) for i in range(len(cts))))
                    tr.append('%s %s(%s) { %s%s; }' % (rct, name, ', '.join('%s a%d' % (t, i) for i, t in enumerate(cts)), '' if rct == 'void' else 'return (%s)' % rct, call))
                    break
            tr.append('}')
            open(d + '/tramp.cpp', 'w').write('\n'.join(tr) + '\n')
        text = open(shim_cpp).read()
        entries = re.findall(r'^\s*(?:H|OP)\((h_\w+)[,)]', text, re.M)
        if getattr(u, 'only_entries', None): entries = [e for e in entries if e in u.only_entries]
        if not entries: raise RuntimeError('no harness entry points in ' + shim_cpp)
        must(['clang++-14'] + CXXDEFS + u.extra_ll_flags + ['-I' + VERIF + '/shim', '-O1', '-Xclang', '-disable-llvm-passes', '-gline-tables-only', '-w', '-S', '-emit-llvm', shim_cpp, '-o', d + '/shim0.ll'])
        stext, sctors = self._normalise(open(d + '/shim0.ll').read(), self.alias)
        # the shim's own static initialisers get unique names (the library has functions called __cxx_global_var_init... too)
        ren = {}
        for c in sctors: ren[c] = 'vpshim.' + c.strip('"')
        if ren:
            stext = re.sub(r'@("[^"]+"|[\w.$]+)', lambda m: '@' + ren.get(m.group(1), m.group(1)), stext)
            sctors = [ren[c] for c in sctors]
        open(d + '/shim.ll', 'w').write(stext)
        link_extra = []
        if u.redirect:
            must(['clang++-14', '-std=c++11', '-O1', '-Xclang', '-disable-llvm-passes', '-w', '-S', '-emit-llvm', d + '/tramp.cpp', '-o', d + '/tramp.ll'])
            link_extra = [d + '/tramp.ll']
        lib_bc = self.dir + '/all2.bc'; refs = self.refs; gl = self.gl; kill = []
        if u.stubs or u.redirect:
            t2, kill = self._stub(self.all_text, list(u.stubs), required=True)
            t2, kill2 = self._stub(t2, list(u.redirect), required=False); kill = kill + kill2
            open(d + '/lib.ll', 'w').write(t2)
            must(['llvm-as-14', d + '/lib.ll', '-o', d + '/lib.bc']); lib_bc = d + '/lib.bc'
            refs, gl = self._refgraph(t2)
        srefs, sgl = self._refgraph(stext)
        R = dict(refs); R.update(srefs)
        G = dict(gl)
        for k_, v_ in sgl.items(): G[k_] = set(G.get(k_, ())) | set(v_)   # the shim only declares library globals (vtables!): keep the library's references
        ctors = self._needed_ctors(R, G, entries, self.ctor_names + sctors) if u.ctors else []
        must(['llvm-link-14', lib_bc, d + '/shim.ll'] + link_extra + ['-o', d + '/u0.bc'])
        must(['opt-14', '-passes=internalize,globaldce', '-internalize-public-api-list=' + ','.join(entries + ctors), d + '/u0.bc', '-S', '-o', d + '/u3.ll'])
        must(['opt-14', '-S', '-passes=' + OPT_PIPE, d + '/u3.ll', '-o', d + '/unit.ll'])
        r = must([sys.executable, ENGINE + '/ir2c.py', d + '/unit.ll', d + '/unit.c', ','.join(ctors)])
        u.untranslated = re.findall(r'UNTRANSLATED (\S+): (.*)', r.stderr)
        u.c_functions = [l for l in open(d + '/unit.c.funcs').read().split('\n') if l]
        u.dir = d; u.entries = entries; u.stubbed = sorted(set(kill))
        u.ir_sha = hashlib.sha256(open(d + '/unit.ll', 'rb').read()).hexdigest()
        u.functions = re.findall(r'^define [^@]*@("[^"]+"|[\w.$]+)\(', open(d + '/u3.ll').read(), re.M)   # cone before inlining
        with open(d + '/entries.c', 'w') as f:
            f.write('typedef void (*vp_hfn)(void); struct vp_entry { const char* name; vp_hfn fn; };\n')
            for e in entries: f.write('void %s(void);\n' % e)
            f.write('struct vp_entry vp_entries[] = {%s {0,0}};\n' % ''.join('{"%s", %s},' % (e, e) for e in entries))
        u.models_abs = [os.path.join(VERIF, m) for m in u.models]
        u.xlat_bin = u.real_bin = None
        if native:
            self._build_native(u)
        self.units[u.name] = u
        self.t_build += time.time() - t0
        return u

    @staticmethod
    def _needed_ctors(refs, gl, entries, ctor_names):
        """Keep only the static constructors that initialise a global the harness cone can read."""
        def cone(roots):
            seen = set(); todo = list(roots)
            while todo:
                x = todo.pop()
                if x in seen: continue
                seen.add(x)
                todo += list(refs.get(x, ())) + list(gl.get(x, ()))
            return seen
        def ctor_globals(c):
            out = set(); todo = [c]; seen = set()
            while todo:
                x = todo.pop()
                if x in seen: continue
                seen.add(x)
                for r_ in refs.get(x, ()):
                    if r_.startswith('__cxx_global_var_init'): todo.append(r_)
                    elif r_ in gl: out.add(r_)
            return out
        need = []
        while True:
            cn = cone(entries + need)
            add = [c for c in ctor_names if c not in need and any(g in cn and not g.startswith('.str') and g != '__dso_handle' for g in ctor_globals(c))]
            if not add: break
            need += add
        return [c for c in ctor_names if c in need]

    def _build_native(self, u):
        d = u.dir
        must(['gcc', '-O1', '-w', '-DVP_NATIVE', '-I' + ENGINE, d + '/unit.c', ENGINE + '/rt.c', d + '/entries.c'] + u.models_abs + ['-o', d + '/xlat', '-no-pie', '-Wl,--unresolved-symbols=ignore-all', '-lstdc++', '-lm'])
        u.xlat_bin = d + '/xlat'
        if True:   # the real (sanitized) build is always needed for replay; u.differential only controls the transcript comparison
            must(['gcc', '-O1', '-w', '-DVP_NATIVE', '-DVP_REAL', '-I' + ENGINE, '-c', ENGINE + '/rt.c', '-o', d + '/rt_real.o'])
            must(['gcc', '-w', '-c', d + '/entries.c', '-o', d + '/entries.o'])
            must(['g++'] + CXXDEFS + ['-DVP_REAL_BUILD', '-I' + VERIF + '/shim', '-O1', '-g1', '-fsanitize=address,undefined', '-fno-sanitize=vptr', '-fno-sanitize-recover=undefined', '-w', d + '/shim.cpp', ENGINE + '/real_main.cpp',
                  d + '/rt_real.o', d + '/entries.o'] + self.objs + ['-o', d + '/real', '-lpcap', '-lcrypto', '-lpthread'])
            u.real_bin = d + '/real'

    # ---- native execution of one harness on one input stream ----
    @staticmethod
    def run_native(binary, fn, params, seed=None, input_file=None, timeout=20):
        env = dict(os.environ)
        env['ASAN_OPTIONS'] = 'detect_leaks=1:abort_on_error=0:exitcode=77'
        env['UBSAN_OPTIONS'] = 'halt_on_error=1:exitcode=78:print_stacktrace=1'
        for i, p in enumerate(params): env['VP_P%d' % i] = str(p)
        if seed is not None: env['VP_SEED'] = str(seed)
        env.pop('VP_INPUT', None)
        if input_file: env['VP_INPUT'] = input_file
        try:
            r = subprocess.run([binary, fn], stdout=subprocess.PIPE, stderr=subprocess.PIPE, universal_newlines=True, env=env, timeout=timeout, errors='replace')
        except subprocess.TimeoutExpired:
            return ('TIMEOUT', '', '')
        last = r.stdout.strip().splitlines()[-1] if r.stdout.strip() else ''
        m = re.match(r'(OK|ASSUME-FAIL|ASSERT-FAIL|MODEL-ASSERT|MODEL-ASSUME-FAIL|UNCAUGHT) ?(.*) hash=([0-9a-f]+)$', last)
        if r.returncode != 0 or not m:
            kind = 'SANITIZER' if ('Sanitizer' in r.stderr or 'runtime error' in r.stderr) else 'CRASH(%d)' % r.returncode
            return (kind, r.stderr[-1500:], '')
        return (m.group(1), m.group(2), m.group(3))


def cbmc_cmd(u, inst, extra=()):
    cmd = ['cbmc', u.dir + '/unit.c', ENGINE + '/rt.c'] + u.models_abs + ['-I', ENGINE, '-DVP_HARNESS=' + inst.fn]
    for i, p in enumerate(inst.params): cmd.append('-DVP_P%d=%d' % (i, p))
    for dd in inst.defines: cmd.append('-D' + dd)
    cmd += ['--function', 'vp_main', '--drop-unused-functions', '--unwinding-assertions', '--no-malloc-may-fail',
            '--max-field-sensitivity-array-size', '512']
    if inst.unwind is not None: cmd += ['--unwind', str(inst.unwind)]
    uws = dict(inst.unwindset)
    uws.setdefault('__vp_ti_match.0', 9)   # exception type chains (catch-clause matching) are at most 8 deep
    if inst.recursion is not None:
        # recursion depth is bounded separately from loops (a symbolic virtual target would otherwise be unfolded --unwind levels deep)
        for fn in u.c_functions:
            uws[fn] = inst.rec_extra.get(fn, inst.recursion)
    if uws: cmd += ['--unwindset', ','.join('%s:%d' % kv for kv in sorted(uws.items()))]
    cmd += ['--object-bits', str(inst.objbits or 11)]
    if inst.leak: cmd += ['--memory-leak-check']
    # SAT back end: CBMC's default (MiniSat2) is lighter on queries with tens of thousands of properties; instances that are arithmetic
    # equivalence queries pass flags=['--sat-solver','cadical'] (measured: 4 s instead of no answer in 200 s)
    cmd += list(inst.flags) + list(extra)
    return cmd


def run_cbmc(u, inst, extra=(), trace=True):
    """returns dict(status=ok|fail|timeout|oom|error, props=[...], wall, rss_mb, solver_s)"""
    cmd = cbmc_cmd(u, inst, extra) + ['--json-ui'] + (['--trace'] if trace else [])
    t0 = time.time()
    def lim():
        resource.setrlimit(resource.RLIMIT_AS, (inst.mem_gb << 30, inst.mem_gb << 30))
        os.setsid()
    outp = tempfile.NamedTemporaryFile(dir=u.dir, prefix='cbmc.', suffix='.json', delete=False)
    p = subprocess.Popen(['/usr/bin/time', '-f', 'VP_RSS_KB=%M'] + cmd, stdout=outp, stderr=subprocess.PIPE, preexec_fn=lim)
    try:
        _, err = p.communicate(timeout=inst.timeout)
        to = False
    except subprocess.TimeoutExpired:
        try: os.killpg(p.pid, signal.SIGKILL)
        except Exception: pass
        _, err = p.communicate(); to = True
    wall = time.time() - t0
    outp.close()
    err = err.decode('utf8', 'replace')
    m = re.search(r'VP_RSS_KB=(\d+)', err)
    res = dict(wall=wall, rss_mb=int(m.group(1)) // 1024 if m else 0, props=[], solver_s=0.0, cmd=' '.join(cmd), messages=[])
    raw = open(outp.name, errors='replace').read()
    os.unlink(outp.name)
    if to:
        res['status'] = 'timeout'; return res
    try:
        js = json.loads(raw)
    except Exception:
        res['status'] = 'oom' if ('bad_alloc' in raw + err or 'Out of memory' in raw + err or p.returncode in (-6, -9, 134, 137)) else 'error'
        res['messages'] = [raw[-1500:], err[-1500:]]
        return res
    props = None
    for item in js:
        if not isinstance(item, dict): continue
        if 'result' in item: props = item['result']
        if item.get('messageType') == 'ERROR': res['messages'].append(item.get('messageText', ''))
        mt = item.get('messageText', '')
        mm = re.match(r'Runtime (?:decision procedure|Solver|Postprocess|Symex|Convert SSA)[^:]*: ([0-9.e+-]+)s', mt)
        if mm and ('decision' in mt or 'Solver' in mt): res['solver_s'] += float(mm.group(1))
        if 'cProverStatus' in item: res['cprover'] = item['cProverStatus']
    if props is None:
        txt = ' '.join(res['messages'])
        res['status'] = 'oom' if 'bad_alloc' in txt or 'memory' in txt.lower() else 'error'
        if not res['messages']: res['messages'] = [raw[-1500:], err[-1500:]]
        return res
    # keep only what the judge needs (a unit can have 30k properties and a tier a thousand queries)
    res['nprops'] = len(props)
    res['props'] = [p for p in props if p.get('status') != 'SUCCESS']
    for p in res['props']:
        if p.get('status') != 'FAILURE': p.pop('trace', None)
    res['status'] = 'done'
    return res


def trace_inputs(prop):
    """nondet inputs in execution order from a CBMC json trace: assignments to 'v' inside vp_u8/16/32/64."""
    vals = []
    for st in prop.get('trace', []):
        if st.get('stepType') != 'assignment': continue
        fn = (st.get('sourceLocation') or {}).get('function', '')
        if fn in ('vp_u8', 'vp_u16', 'vp_u32', 'vp_u64') and st.get('lhs') == 'vp_in':
            v = st.get('value', {})
            d = v.get('data')
            try: vals.append(int(d))
            except Exception:
                b = v.get('binary')
                vals.append(int(b, 2) if b else 0)
    return vals
