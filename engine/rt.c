/* C++ runtime and environment models for the translated units (DESIGN 2.3).
 * Read by CBMC (default) or compiled natively with -DVP_NATIVE for translation validation. */
#include "vp_rt.h"
#include <stdio.h>

int __vp_exc; char* __vp_exc_obj; char* __vp_exc_ti;
#ifndef VP_REAL

/* ---- exceptions: one static exception object, flag model ---- */
static struct { char* a; char* b; char pad[112]; } __vp_exc_buf;
static int __vp_exc_live;
char* __cxa_allocate_exception(uint64_t n) {
  __CPROVER_assert(n <= sizeof(__vp_exc_buf), "exception object fits the static exception buffer");
  return (char*)&__vp_exc_buf;
}
void __cxa_free_exception(char* p) { (void)p; }
void __cxa_throw(char* obj, char* ti, char* dtor) { (void)dtor; __vp_exc_obj = obj; __vp_exc_ti = ti; __vp_exc = 1; }
char* __cxa_begin_catch(char* obj) { return obj; }
void __cxa_end_catch(void) { if (!__vp_exc) __vp_exc_obj = 0; }
void __cxa_rethrow(void) { __vp_exc = 1; }
void __cxa_pure_virtual(void) { __CPROVER_assert(0, "pure virtual call"); __CPROVER_assume(0); }
uint32_t __cxa_atexit(char* f, char* a, char* d) { (void)f; (void)a; (void)d; return 0; }
uint32_t __cxa_guard_acquire(char* g) { return *g == 0; }
void __cxa_guard_release(char* g) { *g = 1; }
void __cxa_guard_abort(char* g) { (void)g; }
#ifndef VP_NATIVE
uint8_t __dso_handle;
#endif

/* ---- allocation: never fails (bad_alloc outside every claim) ---- */
char* _Znwm(uint64_t n) { char* p = malloc(n); __CPROVER_assume(p != 0); return p; }
char* _Znam(uint64_t n) { char* p = malloc(n); __CPROVER_assume(p != 0); return p; }
void _ZdlPv(char* p) { free(p); }
void _ZdaPv(char* p) { free(p); }
void _ZdlPvm(char* p, uint64_t n) { (void)n; free(p); }

/* ---- environment: nondeterministic results within the documented contract ---- */
void _ZNSt8ios_base4InitC1Ev(char* self) { (void)self; }
void _ZNSt8ios_base4InitD1Ev(char* self) { (void)self; }
#ifndef VP_NATIVE
uint32_t nondet_u32(void); uint8_t nondet_u8(void);
uint32_t inet_pton(uint32_t af, char* src, char* dst) {
  __CPROVER_assert(af == 2 || af == 10, "inet_pton: AF_INET or AF_INET6");
  if (af == 2) {
    /* exact model for dotted-decimal IPv4 text (the only form libtins' own static initialisers use): d.d.d.d, each 0..255, 1-3 digits */
    uint32_t val = 0, digits = 0, part = 0, i = 0;
    uint8_t out[4];
    __CPROVER_assert(__CPROVER_w_ok(dst, 4), "inet_pton: destination writable for 4 bytes");
    for (i = 0; i < 16; ++i) {
      char c = src[i];
      if (c >= '0' && c <= '9') { val = val * 10 + (uint32_t)(c - '0'); digits++; if (digits > 3 || val > 255) return 0; }
      else if (c == '.' || c == 0) {
        if (digits == 0 || part > 3) return 0;
        out[part++] = (uint8_t)val; val = 0; digits = 0;
        if (c == 0) break;
      }
      else return 0;
    }
    if (part != 4 || i == 16) return 0;
    /* one 32-bit store (little-endian host): four byte stores into an uninitialised uint32_t are not folded back to a constant by CBMC's simplifier,
     * which made every address built by libtins' static initialisers - and every exception test on them - symbolic */
    *(uint32_t*)dst = (uint32_t)out[0] | ((uint32_t)out[1] << 8) | ((uint32_t)out[2] << 16) | ((uint32_t)out[3] << 24);
    return 1;
  }
  __CPROVER_assert(__CPROVER_r_ok(src, 1), "inet_pton: source string readable");
  __CPROVER_assert(__CPROVER_w_ok(dst, 16), "inet_pton: destination writable for the address size");
  uint32_t r = nondet_u32(); __CPROVER_assume(r <= 1);
  if (r == 1) for (uint32_t i = 0; i < 16; ++i) dst[i] = (char)nondet_u8();
  return r;
}
#endif

/* OpenSSL AES (FFI): arbitrary key schedule / ciphertext, argument ranges checked */
#ifndef VP_NATIVE
uint32_t AES_set_encrypt_key(char* userKey, uint32_t bits, char* key) {
  __CPROVER_assert(bits == 128 || bits == 192 || bits == 256, "AES_set_encrypt_key: key size");
  __CPROVER_assert(__CPROVER_r_ok(userKey, bits / 8), "AES_set_encrypt_key: user key readable");
  __CPROVER_assert(__CPROVER_w_ok(key, 244), "AES_set_encrypt_key: AES_KEY writable");
  return 0;
}
void AES_encrypt(char* in, char* out, char* key) {
  (void)key;
  __CPROVER_assert(__CPROVER_r_ok(in, 16), "AES_encrypt: input block readable");
  __CPROVER_assert(__CPROVER_w_ok(out, 16), "AES_encrypt: output block writable");
  for (int i = 0; i < 16; ++i) out[i] = (char)nondet_u8();
}
#endif

/* std::_Hash_bytes (libstdc++.so): any deterministic function of the bytes; rotate-xor here (hash quality is nobody's claim, and
 * multiplications would make 'equal bytes => equal hash' a hard equivalence query) */
uint64_t _ZSt11_Hash_bytesPKvmm(char* p, uint64_t n, uint64_t seed) {
  uint64_t h = seed ^ 1469598103934665603ULL;
  for (uint64_t i = 0; i < n; ++i) { h = ((h << 5) | (h >> 59)) ^ (uint8_t)p[i]; }
  return h;
}

/* ---- things that must not be reached ---- */
void _ZSt9terminatev(void) { __CPROVER_assert(0, "std::terminate reached"); __CPROVER_assume(0); }
void _ZSt20__throw_length_errorPKc(char* m) { (void)m; __CPROVER_assert(0, "std::length_error thrown"); __CPROVER_assume(0); }
void _ZSt19__throw_logic_errorPKc(char* m) { (void)m; __CPROVER_assert(0, "std::logic_error thrown"); __CPROVER_assume(0); }
void _ZSt17__throw_bad_allocv(void) { __CPROVER_assert(0, "std::bad_alloc thrown"); __CPROVER_assume(0); }
void _ZSt28__throw_bad_array_new_lengthv(void) { __CPROVER_assert(0, "std::bad_array_new_length thrown"); __CPROVER_assume(0); }
void _ZSt24__throw_out_of_range_fmtPKcz(char* m, ...) { (void)m; __CPROVER_assert(0, "std::out_of_range thrown"); __CPROVER_assume(0); }
void _ZSt20__throw_out_of_rangePKc(char* m) { (void)m; __CPROVER_assert(0, "std::out_of_range thrown"); __CPROVER_assume(0); }
void _ZSt25__throw_bad_function_callv(void) { __CPROVER_assert(0, "std::bad_function_call thrown"); __CPROVER_assume(0); }
void _ZSt21__throw_bad_exceptionv(void) { __CPROVER_assert(0, "std::bad_exception thrown"); __CPROVER_assume(0); }

/* ---- std::runtime_error: stores the message pointer, no heap ---- */
void _ZNSt13runtime_errorC2EPKc(char* self, char* msg) { *(char**)(self + 8) = msg; }
void _ZNSt13runtime_errorC2ERKS_(char* self, char* o) { *(char**)(self + 8) = *(char**)(o + 8); }
void _ZNSt13runtime_errorD2Ev(char* self) { (void)self; }
void _ZNSt13runtime_errorD1Ev(char* self) { (void)self; }
char* _ZNKSt13runtime_error4whatEv(char* self) { return *(char**)(self + 8); }
void _ZNSt9exceptionD2Ev(char* self) { (void)self; }

#endif /* !VP_REAL */

/* ---- memory primitives as byte loops (bound: --unwindset vp_memcpy.0:K etc., unwinding assertions on) ---- */
#ifdef VP_NATIVE
char* vp_memcpy(char* d, char* s, uint64_t n) { return memcpy(d, s, n); }
char* vp_memmove(char* d, char* s, uint64_t n) { return memmove(d, s, n); }
char* vp_memset(char* d, uint8_t c, uint64_t n) { return memset(d, c, n); }
#else
char* vp_memcpy(char* d, char* s, uint64_t n) { for (uint64_t i = 0; i < n; ++i) d[i] = s[i]; return d; }
char* vp_memmove(char* d, char* s, uint64_t n) {
  if (n == 0) return d;
  if (!__CPROVER_same_object(d, s) || __CPROVER_POINTER_OFFSET(d) <= __CPROVER_POINTER_OFFSET(s)) { for (uint64_t i = 0; i < n; ++i) d[i] = s[i]; }
  else { for (uint64_t i = n; i > 0; --i) d[i - 1] = s[i - 1]; }
  return d;
}
char* vp_memset(char* d, uint8_t c, uint64_t n) { for (uint64_t i = 0; i < n; ++i) d[i] = (char)c; return d; }
#endif

/* ---- harness API (shim side: engine/vp.h) ---- */
#ifndef VP_NATIVE
uint8_t nondet_u8(void); uint16_t nondet_u16(void); uint32_t nondet_u32(void); uint64_t nondet_u64(void);
/* every symbolic input passes through vp_in, so a counterexample trace lists the inputs in execution order */
uint64_t vp_in;
uint8_t vp_u8(void) { vp_in = nondet_u8(); return (uint8_t)vp_in; }
uint16_t vp_u16(void) { vp_in = nondet_u16(); return (uint16_t)vp_in; }
uint32_t vp_u32(void) { vp_in = nondet_u32(); return (uint32_t)vp_in; }
uint64_t vp_u64(void) { vp_in = nondet_u64(); return vp_in; }
void vp_assume(uint32_t c) { __CPROVER_assume(c); }
void vp_assert(uint32_t c, char* m) { (void)m; __CPROVER_assert(c, "vp_assert (message not constant)"); }
void vp_observe(uint64_t v) { (void)v; }
void vp_witness(void) { __CPROVER_assert(0, "VP_WITNESS reachable"); }
void vp_accept(void) { __CPROVER_assert(0, "VP_ACCEPT reachable"); }
int vp_native_mode(void) { return 0; }
uint32_t vp_r_ok(char* p, uint32_t n) { return n == 0 || __CPROVER_r_ok(p, n); }
uint32_t vp_w_ok(char* p, uint32_t n) { return n == 0 || __CPROVER_w_ok(p, n); }

#else
/* native: inputs from VP_INPUT file (one decimal per line), then xorshift seeded by VP_SEED */
static FILE* vp_in; static int vp_in_open; static uint64_t vp_rng; static uint64_t vp_hash = 1469598103934665603ULL;
static int vp_trace = -1;
static void vp_mix(uint64_t v) { if (vp_trace < 0) vp_trace = getenv("VP_TRACE") != 0; if (vp_trace) fprintf(stderr, "vp_mix %llx\n", (unsigned long long)v); for (int i = 0; i < 8; ++i) { vp_hash ^= (v >> (8 * i)) & 0xff; vp_hash *= 1099511628211ULL; } }
static uint64_t vp_next(void) {
  if (!vp_in_open) { vp_in_open = 1; const char* f = getenv("VP_INPUT"); if (f) vp_in = fopen(f, "r");
    const char* s = getenv("VP_SEED"); vp_rng = s ? strtoull(s, 0, 10) * 2654435761ULL + 88172645463325252ULL : 88172645463325252ULL; }
  unsigned long long v;
  if (vp_in && fscanf(vp_in, "%llu", &v) == 1) return v;
  vp_rng ^= vp_rng << 13; vp_rng ^= vp_rng >> 7; vp_rng ^= vp_rng << 17;
  uint64_t r = vp_rng;
  /* bias towards small values: many harness assumptions want small numbers */
  switch ((r >> 60) & 3) { case 0: return r & 0xff ? r : 0; case 1: return (r >> 8) & 0x0f0f0f0f0f0f0f0fULL; default: return r >> 3; }
}
void vp_finish(const char* what, const char* msg) { printf("%s %s hash=%016llx\n", what, msg, (unsigned long long)vp_hash); fflush(stdout); }
uint8_t vp_u8(void) { uint8_t v = (uint8_t)vp_next(); vp_mix(v); return v; }
uint16_t vp_u16(void) { uint16_t v = (uint16_t)vp_next(); vp_mix(v); return v; }
uint32_t vp_u32(void) { uint32_t v = (uint32_t)vp_next(); vp_mix(v); return v; }
uint64_t vp_u64(void) { uint64_t v = vp_next(); vp_mix(v); return v; }
void vp_native_assume(int c) { vp_mix(0xA0 + !!c); if (!c) { vp_finish("ASSUME-FAIL", ""); exit(0); } }
void vp_native_assert(int c, const char* m) { vp_mix(0xB0 + !!c); if (!c) { vp_finish("ASSERT-FAIL", m); exit(0); } }
void vp_native_model_assume(int c) { if (!c) { vp_finish("MODEL-ASSUME-FAIL", ""); exit(0); } }
void vp_native_model_assert(int c, const char* m) { if (!c) { vp_finish("MODEL-ASSERT", m); exit(0); } }
void vp_assume(uint32_t c) { vp_native_assume(c); }
void vp_assert(uint32_t c, char* m) { vp_native_assert(c, m); }
void vp_observe(uint64_t v) { vp_mix(v); }
void vp_witness(void) { }
void vp_accept(void) { }
int vp_native_mode(void) { return 1; }
uint32_t vp_r_ok(char* p, uint32_t n) { (void)p; (void)n; return 1; }
uint32_t vp_w_ok(char* p, uint32_t n) { (void)p; (void)n; return 1; }

#endif

/* exact-size heap buffer with symbolic contents */
char* vp_buf(uint32_t n) {
  char* p = malloc(n); __CPROVER_assume(p != 0);
  for (uint32_t i = 0; i < n; ++i) p[i] = (char)vp_u8();
  return p;
}
char* vp_alloc(uint32_t n) { char* p = malloc(n); __CPROVER_assume(p != 0); return p; }
void vp_free(char* p) { free(p); }
#ifndef VP_P0
#define VP_P0 0
#endif
#ifndef VP_P1
#define VP_P1 0
#endif
#ifndef VP_P2
#define VP_P2 0
#endif
#ifndef VP_P3
#define VP_P3 0
#endif
#ifndef VP_P4
#define VP_P4 0
#endif
#ifndef VP_P5
#define VP_P5 0
#endif
#ifdef VP_NATIVE
uint32_t vp_param(uint32_t i) { static const char* nm[6] = {"VP_P0", "VP_P1", "VP_P2", "VP_P3", "VP_P4", "VP_P5"}; const char* s = i < 6 ? getenv(nm[i]) : 0; return s ? (uint32_t)strtoul(s, 0, 10) : 0; }
#else
uint32_t vp_param(uint32_t i) { __CPROVER_assert(i < 6, "vp_param: at most six per-instance parameters"); return i == 0 ? VP_P0 : i == 1 ? VP_P1 : i == 2 ? VP_P2 : i == 3 ? VP_P3 : i == 4 ? VP_P4 : VP_P5; }
#endif

/* behaviour of contract stubs: a concrete per-instance parameter (P1), so that the pointer a stub returns is a single object or null,
 * never a symbolic mix (CBMC then resolves virtual calls on it) */
uint32_t vp_choice(void) { return vp_param(1); }

#ifdef VP_REAL
/* the real build has no generated snapshot of the unit's mutable globals */
uint64_t vp_globals_size(void) { return 0; }
void vp_globals_snapshot(char* dst) { (void)dst; }
#endif

/* entry */
void vp_run_ctors(void);
#if defined(VP_REAL)
#elif defined(VP_NATIVE)
typedef void (*vp_hfn)(void);
struct vp_entry { const char* name; vp_hfn fn; };
extern struct vp_entry vp_entries[];
int main(int argc, char** argv) {
  if (argc < 2) return 2;
  vp_run_ctors();
  for (struct vp_entry* e = vp_entries; e->name; ++e)
    if (!strcmp(e->name, argv[1])) { e->fn(); if (__vp_exc) { vp_finish("UNCAUGHT", ""); return 0; } vp_finish("OK", ""); return 0; }
  return 2;
}
#else
void VP_HARNESS(void);
void vp_main(void) {
  vp_run_ctors();
  VP_HARNESS();
  __CPROVER_assert(!__vp_exc, "no exception escapes the harness uncaught");
}
#endif
