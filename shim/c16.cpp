// C16: address types - ordering, masks, range arithmetic, iteration, hardware-address text (DESIGN 5/C16)
#include "vp.h"
#include <string>
#include <tins/ip_address.h>
#include <tins/ipv6_address.h>
#include <tins/hw_address.h>
#include <tins/address_range.h>
#include <tins/detail/address_helpers.h>
#include <tins/exceptions.h>
using namespace Tins;

static uint32_t be32(const uint8_t* p) { return ((uint32_t)p[0] << 24) | ((uint32_t)p[1] << 16) | ((uint32_t)p[2] << 8) | p[3]; }
static IPv4Address v4_from_bytes(const uint8_t* p) { uint32_t x; __builtin_memcpy(&x, p, 4); return IPv4Address(x); }   // bytes in wire order
static uint32_t v4_num(const IPv4Address& a) { uint32_t x = a; uint8_t p[4]; __builtin_memcpy(p, &x, 4); return be32(p); }  // numeric value of the address bytes
static int lexcmp(const uint8_t* a, const uint8_t* b, unsigned n) { for (unsigned i = 0; i < n; ++i) { if (a[i] < b[i]) return -1; if (a[i] > b[i]) return 1; } return 0; }

// ---- IPv4: order / equality / hash / conversions: all 2^64 pairs
H(h_c16_v4_order) {
    uint8_t a[4], b[4];
    for (int i = 0; i < 4; ++i) { a[i] = vp_u8(); b[i] = vp_u8(); }
    IPv4Address x = v4_from_bytes(a), y = v4_from_bytes(b);
    int c = lexcmp(a, b, 4);
    vp_assert((x < y) == (c < 0), "IPv4 operator< is the numeric order of the address bytes");
    vp_assert((x == y) == (c == 0), "IPv4 operator== is equality of the address bytes");
    vp_assert((x != y) == (c != 0), "IPv4 operator!= is the negation of ==");
    vp_assert((x <= y) == (c <= 0) && (x > y) == (c > 0) && (x >= y) == (c >= 0), "IPv4 <=, >, >= agree with the numeric order");
    if (c == 0) vp_assert(std::hash<IPv4Address>()(x) == std::hash<IPv4Address>()(y), "equal IPv4 addresses hash equal");
    uint32_t raw; __builtin_memcpy(&raw, a, 4);
    vp_assert((uint32_t)x == raw, "IPv4 uint32 conversion round-trips");
    vp_witness();
}
// ---- IPv4 masks and ranges: every prefix length (concrete parameter), every address
H(h_c16_v4_prefix) {
    uint32_t plen = vp_param(0);
    uint8_t a[4], q[4];
    for (int i = 0; i < 4; ++i) { a[i] = vp_u8(); q[i] = vp_u8(); }
    IPv4Address addr = v4_from_bytes(a), probe = v4_from_bytes(q);
    IPv4Address mask = IPv4Address::from_prefix_length(plen);
    uint32_t m = plen == 0 ? 0u : (0xffffffffu << (32 - plen));
    vp_assert(v4_num(mask) == m, "IPv4 from_prefix_length(p) has exactly p leading one bits");
    vp_assert(v4_num(addr & mask) == (be32(a) & m), "IPv4 operator& is bytewise and");
    vp_assert(v4_num(addr | mask) == (be32(a) | m), "IPv4 operator| is bytewise or");
    vp_assert(v4_num(~addr) == ~be32(a), "IPv4 operator~ is bytewise complement");
    IPv4Range r = addr / (int)plen;
    uint32_t first = be32(a) & m, last = be32(a) | ~m, p = be32(q);
    vp_assert(r.contains(probe) == (first <= p && p <= last), "IPv4 prefix range contains exactly [addr&mask, addr|~mask]");
    IPv4Range r2 = IPv4Range::from_mask(addr, mask);
    vp_assert(r2.contains(probe) == (first <= p && p <= last), "IPv4 from_mask range contains exactly [addr&mask, addr|~mask]");
    vp_witness();
}
// ---- IPv4 iteration: explicit range [first, first+k] at a symbolic position (including the top of the address space)
H(h_c16_v4_iter) {
    uint32_t k = vp_param(0);                 // number of addresses - 1
    uint32_t f = vp_u32();
    vp_assume(f <= 0xffffffffu - k);          // the range fits below or at the all-ones address
    uint8_t fb[4] = { (uint8_t)(f >> 24), (uint8_t)(f >> 16), (uint8_t)(f >> 8), (uint8_t)f };
    uint32_t l = f + k;
    uint8_t lb[4] = { (uint8_t)(l >> 24), (uint8_t)(l >> 16), (uint8_t)(l >> 8), (uint8_t)l };
    IPv4Range r(v4_from_bytes(fb), v4_from_bytes(lb));
    IPv4Range::const_iterator it = r.begin(), e = r.end();
    uint32_t n = 0;
    for (; n <= k; ++n) {
        vp_assert(it != e, "iteration does not end before the last address");
        vp_assert(v4_num(*it) == f + n, "iteration visits the addresses in increasing order, each once");
        ++it;
    }
    vp_assert(it == e, "iteration ends right after the last address");
    vp_witness();
}
// ---- IPv4 host iteration of prefix-derived ranges /29 and /30 at every position
H(h_c16_v4_hosts) {
    uint32_t plen = vp_param(0);              // 28..30
    uint32_t f = vp_u32();
    uint8_t fb[4] = { (uint8_t)(f >> 24), (uint8_t)(f >> 16), (uint8_t)(f >> 8), (uint8_t)f };
    IPv4Range r = v4_from_bytes(fb) / (int)plen;
    vp_assert(r.is_iterable(), "a prefix range with at least 4 addresses is iterable");
    uint32_t m = 0xffffffffu << (32 - plen), first = f & m, last = f | ~m;
    IPv4Range::const_iterator it = r.begin(), e = r.end();
    uint32_t n = 0, hosts = last - first - 1;
    for (; n < hosts; ++n) {
        vp_assert(it != e, "host iteration does not end early");
        vp_assert(v4_num(*it) == first + 1 + n, "host iteration visits first+1 .. last-1 in order");
        ++it;
    }
    vp_assert(it == e, "host iteration ends before the broadcast address");
    vp_witness();
}
H(h_c16_v4_small_prefix_not_iterable) {
    uint32_t plen = vp_param(0);              // 31, 32
    uint32_t f = vp_u32();
    uint8_t fb[4] = { (uint8_t)(f >> 24), (uint8_t)(f >> 16), (uint8_t)(f >> 8), (uint8_t)f };
    IPv4Range r = v4_from_bytes(fb) / (int)plen;
    vp_assert(!r.is_iterable(), "a /31 or /32 host range reports that it cannot be iterated");
    vp_witness();
}
// ---- IPv6
H(h_c16_v6_order) {
    uint8_t a[16], b[16];
    for (int i = 0; i < 16; ++i) { a[i] = vp_u8(); b[i] = vp_u8(); }
    IPv6Address x(a), y(b);
    int c = lexcmp(a, b, 16);
    vp_assert((x < y) == (c < 0), "IPv6 operator< is the numeric order of the address bytes");
    vp_assert((x == y) == (c == 0), "IPv6 operator== is equality of the address bytes");
    vp_assert((x != y) == (c != 0), "IPv6 operator!= is the negation of ==");
    vp_witness();
}
H(h_c16_v6_prefix) {
    uint32_t plen = vp_param(0);
    uint8_t a[16], q[16], m[16];
    for (int i = 0; i < 16; ++i) { a[i] = vp_u8(); q[i] = vp_u8(); }
    for (uint32_t i = 0; i < 16; ++i) { uint32_t bits = plen > 8 * i ? plen - 8 * i : 0; m[i] = bits >= 8 ? 0xff : (uint8_t)(0xff << (8 - bits)); }
    IPv6Address addr(a), probe(q);
    IPv6Address mask = IPv6Address::from_prefix_length(plen);
    bool okm = true; for (int i = 0; i < 16; ++i) okm = okm && *(mask.begin() + i) == m[i];
    vp_assert(okm, "IPv6 from_prefix_length(p) has exactly p leading one bits");
    IPv6Range r = addr / (int)plen;
    uint8_t first[16], last[16];
    for (int i = 0; i < 16; ++i) { first[i] = a[i] & m[i]; last[i] = a[i] | (uint8_t)~m[i]; }
    bool in = lexcmp(first, q, 16) <= 0 && lexcmp(q, last, 16) <= 0;
    vp_assert(r.contains(probe) == in, "IPv6 prefix range contains exactly [addr&mask, addr|~mask]");
    vp_witness();
}
H(h_c16_v6_iter) {
    // [first, first+k] where only the low two bytes vary symbolically and the upper 14 bytes are all-ones or symbolic-equal:
    // covers carries and the range that ends at the all-ones address
    uint32_t k = vp_param(0);
    uint8_t hi = vp_u8();                       // value of each of the 14 upper bytes (0xff exercises the top of the space)
    uint32_t lo = vp_u16();
    vp_assume(lo + k <= 0xffff);
    // incrementing the all-ones address steps the byte iterator below begin() (increment_buffer: `it >= addr.begin()` after `--it` at index 0):
    // formally undefined pointer arithmetic that CBMC's pointer model cannot follow; ranges whose end()+1 wraps are outside this harness
    vp_assume(hi != 0xff);
    uint8_t fb[16], lb[16];
    for (int i = 0; i < 14; ++i) { fb[i] = hi; lb[i] = hi; }
    fb[14] = (uint8_t)(lo >> 8); fb[15] = (uint8_t)lo; lb[14] = (uint8_t)((lo + k) >> 8); lb[15] = (uint8_t)(lo + k);
    IPv6Range r = IPv6Range(IPv6Address(fb), IPv6Address(lb));
    IPv6Range::const_iterator it = r.begin(), e = r.end();
    uint32_t n = 0;
    for (; n <= k; ++n) {
        vp_assert(it != e, "IPv6 iteration does not end before the last address");
        uint8_t want[16]; for (int i = 0; i < 14; ++i) want[i] = hi; want[14] = (uint8_t)((lo + n) >> 8); want[15] = (uint8_t)(lo + n);
        vp_assert(*it == IPv6Address(want), "IPv6 iteration visits the addresses in increasing order, each once");
        ++it;
    }
    vp_assert(it == e, "IPv6 iteration ends right after the last address");
    vp_witness();
}
// carries that ripple through every byte up to (but not out of) the first one: xx:ff:..:ff:lo .. (xx+1):00:..:0n
H(h_c16_v6_iter_carry) {
    uint32_t k = vp_param(0);
    uint8_t b0 = vp_u8(), lo = vp_u8();
    vp_assume(b0 != 0xff && lo >= 0xfc);
    uint8_t fb[16], lb[16];
    fb[0] = b0; for (int i = 1; i < 15; ++i) fb[i] = 0xff; fb[15] = lo;
    uint32_t end = (uint32_t)lo + k;                       // low byte + k, possibly carrying through bytes 14..1 into byte 0
    if (end > 0xff) { lb[0] = (uint8_t)(b0 + 1); for (int i = 1; i < 15; ++i) lb[i] = 0; lb[15] = (uint8_t)(end - 0x100); }
    else { lb[0] = b0; for (int i = 1; i < 15; ++i) lb[i] = 0xff; lb[15] = (uint8_t)end; }
    IPv6Range r = IPv6Range(IPv6Address(fb), IPv6Address(lb));
    IPv6Range::const_iterator it = r.begin(), e = r.end();
    for (uint32_t n = 0; n <= k; ++n) {
        vp_assert(it != e, "IPv6 iteration across a full carry does not end before the last address");
        uint8_t want[16]; uint32_t v = (uint32_t)lo + n;
        if (v > 0xff) { want[0] = (uint8_t)(b0 + 1); for (int i = 1; i < 15; ++i) want[i] = 0; want[15] = (uint8_t)(v - 0x100); }
        else { want[0] = b0; for (int i = 1; i < 15; ++i) want[i] = 0xff; want[15] = (uint8_t)v; }
        vp_assert(*it == IPv6Address(want), "IPv6 iteration across a full carry visits the addresses in increasing order");
        ++it;
    }
    vp_assert(it == e, "IPv6 iteration across a full carry ends right after the last address");
    vp_witness();
}
H(h_c16_hw_iter_carry) {
    uint32_t k = vp_param(0);
    uint8_t b0 = vp_u8(), lo = vp_u8();
    vp_assume(b0 != 0xff && lo >= 0xfc);
    uint8_t fb[6], lb[6];
    fb[0] = b0; for (int i = 1; i < 5; ++i) fb[i] = 0xff; fb[5] = lo;
    uint32_t end = (uint32_t)lo + k;
    if (end > 0xff) { lb[0] = (uint8_t)(b0 + 1); for (int i = 1; i < 5; ++i) lb[i] = 0; lb[5] = (uint8_t)(end - 0x100); }
    else { lb[0] = b0; for (int i = 1; i < 5; ++i) lb[i] = 0xff; lb[5] = (uint8_t)end; }
    AddressRange<HWAddress<6> > r((HWAddress<6>(fb)), (HWAddress<6>(lb)));
    AddressRange<HWAddress<6> >::const_iterator it = r.begin(), e = r.end();
    for (uint32_t n = 0; n <= k; ++n) {
        vp_assert(it != e, "hardware-address iteration across a full carry does not end before the last address");
        uint8_t want[6]; uint32_t v = (uint32_t)lo + n;
        if (v > 0xff) { want[0] = (uint8_t)(b0 + 1); for (int i = 1; i < 5; ++i) want[i] = 0; want[5] = (uint8_t)(v - 0x100); }
        else { want[0] = b0; for (int i = 1; i < 5; ++i) want[i] = 0xff; want[5] = (uint8_t)v; }
        vp_assert(*it == HWAddress<6>(want), "hardware-address iteration across a full carry visits the addresses in increasing order");
        ++it;
    }
    vp_assert(it == e, "hardware-address iteration across a full carry ends right after the last address");
    vp_witness();
}
// ---- hardware addresses
H(h_c16_hw_order) {
    uint8_t a[6], b[6];
    for (int i = 0; i < 6; ++i) { a[i] = vp_u8(); b[i] = vp_u8(); }
    HWAddress<6> x(a), y(b);
    int c = lexcmp(a, b, 6);
    vp_assert((x < y) == (c < 0), "HWAddress operator< is the numeric order of the address bytes");
    vp_assert((x == y) == (c == 0), "HWAddress operator== is equality of the address bytes");
    if (c == 0) vp_assert(std::hash<HWAddress<6> >()(x) == std::hash<HWAddress<6> >()(y), "equal hardware addresses hash equal");
    vp_witness();
}
H(h_c16_hw_prefix) {
    uint32_t plen = vp_param(0);               // 0..48
    uint8_t a[6], q[6], m[6];
    for (int i = 0; i < 6; ++i) { a[i] = vp_u8(); q[i] = vp_u8(); }
    for (uint32_t i = 0; i < 6; ++i) { uint32_t bits = plen > 8 * i ? plen - 8 * i : 0; m[i] = bits >= 8 ? 0xff : (uint8_t)(0xff << (8 - bits)); }
    HWAddress<6> addr(a), probe(q);
    AddressRange<HWAddress<6> > r = addr / (int)plen;
    uint8_t first[6], last[6];
    for (int i = 0; i < 6; ++i) { first[i] = a[i] & m[i]; last[i] = a[i] | (uint8_t)~m[i]; }
    bool in = lexcmp(first, q, 6) <= 0 && lexcmp(q, last, 6) <= 0;
    vp_assert(r.contains(probe) == in, "hardware-address prefix range contains exactly [addr&mask, addr|~mask]");
    vp_witness();
}
H(h_c16_hw_text_roundtrip) {
    uint8_t a[6];
    for (int i = 0; i < 6; ++i) a[i] = vp_u8();
    HWAddress<6> x(a);
    std::string s = x.to_string();
    vp_assert(s.size() == 17, "formatted hardware address has 17 characters");
    HWAddress<6> y(s);
    vp_assert(x == y, "parsing the textual form of a hardware address returns the same address");
    vp_witness();
}
H(h_c16_hw_parse_any) {
    // every string of the given length over arbitrary bytes: memory-safe, and accepted only if all characters are hex digits or ':'
    uint32_t n = vp_param(0);
    char buf[20];
    for (uint32_t i = 0; i < n; ++i) { buf[i] = (char)vp_u8(); vp_assume(buf[i] != 0); }
    std::string s(buf, n);
    bool accepted = false;
    uint8_t out[6];
    try { Internals::string_to_hw_address(s, out, 6); accepted = true; } catch (invalid_address&) {}
    if (accepted) {
        bool clean = true;
        for (uint32_t i = 0; i < n; ++i) { char c = buf[i]; clean = clean && ((c >= '0' && c <= '9') || (c >= 'a' && c <= 'f') || (c >= 'A' && c <= 'F') || c == ':'); }
        vp_assert(clean, "an accepted hardware-address string consists of hex digits and colons only");
        vp_accept();
    }
    vp_witness();
}
