"""C08 - IPv4 fragment reassembly reconstructs the original datagram."""
import itertools, os
from driver import Unit, Inst
EXPLANATION = ('The real IPv4Reassembler::process (std::map of IPv4Stream, IPv4Stream::add_fragment / is_complete / allocate_pdu, IP copy assignment, RawPDU serialization) is run on a '
               'schedule of packets: the k fragments of a datagram D (8 bytes each, last one 1..8 bytes) in every order, with a duplicate at every position, interleaved with a fragment of another datagram X '
               '(other identification or other address pair) and with an unfragmented packet carrying D\'s key. The schedule and the keys (one of six configurations: id / address extremes, source == destination, '
               'swapped roles) are concrete per query; ttl, tos, protocol number and every payload byte are symbolic. After each step the returned status is compared with a set-of-offsets model; on completion the header fields, cleared offset/MF and the payload bytes are compared.')
BOUNDS = {'quick': 'k=2: every schedule of length <= 3 over {f0, f1, X, U}; k=3: all 6 orders and all 36 orders with one duplicate; last fragment of 3 bytes; any header values and payload bytes',
          'thorough': 'k=2 and k=3 additionally with X and U interleaved at every position (length <= 5), last-fragment sizes 1 and 8; k=4 all 24 orders'}
OUTSIDE = ('symbolic stream keys (tried with a symbolic key for X: no verdict in 300 s); datagrams of more than 4 fragments or fragments larger than 8 bytes; more than two concurrent datagrams; overlapping fragments (excluded by the property); upper-layer protocols other than an unrecognised one '
           '(the concatenated payload is re-parsed by the dispatcher, whose parsers are C01\'s subject); IP options in the fragments; the overlapping-technique argument (unused by the code)')
ASSUMPTIONS = ['Internals::pdu_from_flag(Constants::IP::e, ...) - the upper-layer dispatcher - is a stub that records the protocol number it is asked for and returns the bytes as a RawPDU',
               'the four libstdc++.so red-black-tree primitives are engine/models/rbtree.c (a line-by-line C port of libstdc++ tree.cc)',
               'fragments are built through the public API (IP + RawPDU), not parsed from the wire']
NRAND = {'quick': 20, 'thorough': 60}
def units(tier): return [Unit('c08', shim='c08.cpp', models=['engine/models/rbtree.c'], differential=False,
                              redirect={r'_ZN4Tins9Internals13pdu_from_flagENS_9Constants2IP1eEPKhjb': 'vp_stub_dispatch4_raw'})]
def enc(seq):
    v = 0
    for i, c in enumerate(seq): v |= c << (3 * i)
    return v
def scheds(tier):
    out = []
    # k = 2
    for L in (1, 2, 3):
        for seq in itertools.product((0, 1, 5, 6), repeat=L): out.append((2, 3, seq))
    # k = 3: orders, orders with one duplicate
    for perm in itertools.permutations((0, 1, 2)):
        out.append((3, 3, perm))
    for seq in itertools.product((0, 1, 2), repeat=4):
        if set(seq) == {0, 1, 2}: out.append((3, 3, seq))
    if tier != 'quick':
        for last in (1, 8):
            for perm in itertools.permutations((0, 1, 2)): out.append((3, last, perm))
            for perm in itertools.permutations((0, 1)): out.append((2, last, perm))
        for perm in itertools.permutations((0, 1, 2)):
            for extra in (5, 6):
                for pos in range(4): out.append((3, 3, perm[:pos] + (extra,) + perm[pos:]))
        for seq in itertools.product((0, 1, 5, 6), repeat=4):
            if {0, 1} <= set(seq): out.append((2, 3, seq))
        for perm in itertools.permutations((0, 1, 2, 3)): out.append((4, 3, perm))
    seen = set(); res = []
    for x in out:
        if x not in seen: seen.add(x); res.append(x)
    return res
NAMES = {5: 'X', 6: 'U'}
def instances(tier):
    out = []
    for n, (k, last, seq) in enumerate(scheds(tier)):
        kc = n % 6
        symx = 1 if (5 in seq and os.environ.get('C08_SYMX', '0') == '1') else 0   # a symbolic key for the other datagram was tried: no schedule with it finished in 300 s, so it is off unless C08_SYMX=1
        out.append(Inst('c08', 'h_c08_schedule', params=(len(seq), k, last, enc(seq), kc, symx), unwind=40, unwindset={'vp_memcpy.0': 40, 'vp_memmove.0': 40, 'vp_memmove.1': 40, 'vp_memset.0': 40}, timeout=600, mem_gb=6, recursion=3,
                        note='k=%d fragments (last %d bytes), key configuration %d%s, schedule %s' % (k, last, kc, ' (X symbolic)' if symx else '', ' '.join(NAMES.get(c, 'f%d' % c) for c in seq))))
    return out
