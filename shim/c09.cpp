// C09: decrypting arbitrary truncated / hostile protected frames is memory-safe (DESIGN 5/C09 a)
#include "stubs.h"
#include <tins/crypto.h>
#include <tins/dot11/dot11_data.h>
#include <tins/rawpdu.h>
#include <tins/snap.h>
using namespace Tins;

static void sym_dot11(Dot11Data& d) {
    uint8_t bits = vp_u8();
    d.from_ds(bits & 1); d.to_ds((bits >> 1) & 1); d.more_frag((bits >> 2) & 1); d.order((bits >> 3) & 1);
    uint8_t a[6]; for (int i = 0; i < 6; ++i) a[i] = vp_u8();
    d.addr1(HWAddress<6>(a)); d.addr2(HWAddress<6>(a)); d.addr3(HWAddress<6>(a));
    d.frag_num(vp_u8() & 0x0f);
}
H(h_c09_ccmp_safe) {
    uint32_t n = vp_param(0);
    uint8_t* b = vp_buf(n);
    Dot11Data dot11;                                  // plain (non-QoS) data frame object, any DS bits / addresses
    sym_dot11(dot11);
    RawPDU raw(b, n);
    Crypto::WPA2::SessionKeys::ptk_type ptk(80);
    for (unsigned i = 0; i < 80; ++i) ptk[i] = vp_u8();
    Crypto::WPA2::SessionKeys keys(ptk, true);
    SNAP* r = 0;
    try { r = keys.decrypt_unicast(dot11, raw); } catch (exception_base&) { r = 0; }   // a decrypted body too short for LLC/SNAP surfaces as a libtins exception
    vp_observe(r != 0);
    delete r;
    vp_free(b);
    vp_witness();
}
H(h_c09_ccmp_qos_safe) {
    uint32_t n = vp_param(0);
    uint8_t* b = vp_buf(n);
    Dot11QoSData dot11;
    sym_dot11(dot11);
    dot11.qos_control(vp_u16());
    RawPDU raw(b, n);
    Crypto::WPA2::SessionKeys::ptk_type ptk(80);
    for (unsigned i = 0; i < 80; ++i) ptk[i] = vp_u8();
    Crypto::WPA2::SessionKeys keys(ptk, true);
    SNAP* r = 0;
    try { r = keys.decrypt_unicast(dot11, raw); } catch (exception_base&) { r = 0; }   // a decrypted body too short for LLC/SNAP surfaces as a libtins exception
    vp_observe(r != 0);
    delete r;
    vp_free(b);
    vp_witness();
}
