// C19 kernel: the wrap-aware range splitter AckedRange
#include "vp.h"
#include <tins/tcp_ip/ack_tracker.h>
using namespace Tins::TCPIP;
H(h_c19_acked_range) {
    uint32_t first = vp_u32(), last = vp_u32(), probe = vp_u32();
    vp_assume(last - first < 0x80000000u);                 // a conforming receiver: the range spans less than half the sequence space
    AckedRange r(first, last);
    bool in_range = (probe - first) <= (last - first);    // cyclic membership
    bool covered = false; uint32_t n = 0;
    uint32_t lo[3], hi[3];
    while (r.has_next() && n < 3) {
        AckedRange::interval_type iv = r.next();
        lo[n] = iv.lower(); hi[n] = iv.upper();
        vp_assert(lo[n] <= hi[n], "every produced interval is non-empty and ordered");
        if (probe >= lo[n] && probe <= hi[n]) covered = true;
        ++n;
    }
    vp_assert(!r.has_next(), "at most two intervals are produced");
    vp_assert(n >= 1 && n <= 2, "a non-empty cyclic range yields one interval, or two when it wraps");
    if (n == 2) vp_assert(hi[1] < lo[0], "the two intervals of a wrapping range are disjoint");
    vp_assert(covered == in_range, "the union of the produced intervals is exactly the cyclic range");
    vp_witness();
}
