#!/usr/bin/env python3
"""Spike: LLVM-14 textual IR (typed pointers) -> flat C for CBMC.
All pointers become char*; all memory access is by byte offset + cast."""
import os, re, sys, collections

TOK = re.compile(r'''
   (?P<str>c"(?:[^"\\]|\\.)*")
 | (?P<pstr>"(?:[^"\\]|\\.)*")
 | (?P<qname>[%@]"(?:[^"\\]|\\.)*")
 | (?P<name>[%@][-a-zA-Z$._0-9]+)
 | (?P<meta>![-a-zA-Z$._0-9]*(?:\([^)]*\))?)
 | (?P<attr>\#\d+)
 | (?P<num>-?\d+\.\d+(?:e[+-]?\d+)?|-?\d+|0x[0-9A-Fa-f]+)
 | (?P<word>[a-zA-Z_][a-zA-Z_0-9.]*)
 | (?P<punct>\.\.\.|[()\[\]{}<>,=*:])
 | (?P<ws>\s+)
''', re.X)

def tokenize(s):
    out = []
    i = 0
    n = len(s)
    while i < n:
        if s[i] == ';':
            break
        m = TOK.match(s, i)
        if not m:
            raise SyntaxError("tok: %r at %r" % (s[i:i+20], s))
        i = m.end()
        k = m.lastgroup
        if k == 'ws':
            continue
        out.append((k, m.group(k)))
    return out

# ---------- types ----------
class T:
    pass
class IntT(T):
    def __init__(s, bits): s.bits = bits
    def __repr__(s): return 'i%d' % s.bits
class FloatT(T):
    def __init__(s, k): s.k = k
    def __repr__(s): return s.k
class PtrT(T):
    def __init__(s, to): s.to = to
    def __repr__(s): return 'ptr'
class VoidT(T):
    def __repr__(s): return 'void'
class ArrT(T):
    def __init__(s, n, el): s.n = n; s.el = el
    def __repr__(s): return '[%d x %r]' % (s.n, s.el)
class StructT(T):
    def __init__(s, fields, packed, name=None): s.fields = fields; s.packed = packed; s.name = name
    def __repr__(s): return s.name or ('{%s}' % ','.join(map(repr, s.fields)))
class NamedT(T):
    def __init__(s, name): s.name = name
    def __repr__(s): return s.name
class FuncT(T):
    def __init__(s, ret, args, va): s.ret = ret; s.args = args; s.va = va
    def __repr__(s): return 'fn'
class OpaqueT(T):
    def __repr__(s): return 'opaque'
class LabelT(T): pass
class MetaT(T): pass

class Module:
    def __init__(s):
        s.named = {}
        s.globals = collections.OrderedDict()
        s.funcs = collections.OrderedDict()
        s.decls = collections.OrderedDict()
        s.aliases = {}
        s.attrs = {}
        s.aggs = {}

M = Module()

def resolve(t):
    while isinstance(t, NamedT):
        t = M.named[t.name]
    return t

def align_of(t):
    t = resolve(t)
    if isinstance(t, IntT): return min(8, max(1, 1 << (max(t.bits, 8) - 1).bit_length() >> 3)) if t.bits <= 64 else 16
    if isinstance(t, FloatT): return {'float': 4, 'double': 8, 'x86_fp80': 16}[t.k]
    if isinstance(t, PtrT): return 8
    if isinstance(t, ArrT): return align_of(t.el)
    if isinstance(t, StructT):
        if t.packed: return 1
        return max([align_of(f) for f in t.fields] or [1])
    raise Exception('align_of %r' % t)

def size_of(t):
    t = resolve(t)
    if isinstance(t, IntT):
        b = (t.bits + 7) // 8
        p = 1
        while p < b: p *= 2
        return p
    if isinstance(t, FloatT): return {'float': 4, 'double': 8, 'x86_fp80': 16}[t.k]
    if isinstance(t, PtrT): return 8
    if isinstance(t, ArrT): return t.n * size_of(t.el)
    if isinstance(t, StructT):
        return struct_layout(t)[1]
    if isinstance(t, OpaqueT): return 0
    raise Exception('size_of %r' % t)

_layout_cache = {}
def struct_layout(t):
    # structural key: anonymous literal struct types are re-created on every parse (id() would be reused after collection)
    key = (t.name, t.packed) if t.name else ('anon', t.packed, tuple(repr(resolve(f)) if not isinstance(resolve(f), StructT) or resolve(f).name else repr([repr(x) for x in resolve(f).fields]) for f in t.fields))
    if key in _layout_cache: return _layout_cache[key]
    off = 0; offs = []
    for f in t.fields:
        a = 1 if t.packed else align_of(f)
        off = (off + a - 1) // a * a
        offs.append(off)
        off += size_of(f)
    a = align_of(t)
    off = (off + a - 1) // a * a
    _layout_cache[key] = (offs, off)
    return offs, off

class P:
    """token stream parser"""
    def __init__(s, toks): s.t = toks; s.i = 0
    def peek(s, k=0): return s.t[s.i + k] if s.i + k < len(s.t) else (None, None)
    def next(s):
        x = s.t[s.i]; s.i += 1; return x
    def accept(s, v):
        if s.peek()[1] == v:
            s.i += 1; return True
        return False
    def expect(s, v):
        x = s.next()
        if x[1] != v: raise SyntaxError('expected %r got %r in %r' % (v, x, s.t))
    def eof(s): return s.i >= len(s.t)

    def type(s):
        k, v = s.next()
        if v == 'void': t = VoidT()
        elif k == 'word' and re.fullmatch(r'i\d+', v): t = IntT(int(v[1:]))
        elif v in ('float', 'double', 'x86_fp80'): t = FloatT(v)
        elif v == 'label': t = LabelT()
        elif v == 'metadata': t = MetaT()
        elif v == 'opaque': t = OpaqueT()
        elif k in ('name', 'qname') and v[0] == '%': t = NamedT(v)
        elif v == '[':
            n = int(s.next()[1]); s.expect('x'); el = s.type(); s.expect(']')
            t = ArrT(n, el)
        elif v == '{':
            t = StructT(s.type_list('}'), False)
        elif v == '<':
            if s.peek()[1] == '{':
                s.next(); fields = s.type_list('}'); s.expect('>')
                t = StructT(fields, True)
            else:
                n = int(s.next()[1]); s.expect('x'); el = s.type(); s.expect('>')
                raise SyntaxError('vector type unsupported')
        else:
            raise SyntaxError('type? %r %r' % ((k, v), s.t))
        while True:
            if s.accept('*'):
                t = PtrT(t)
            elif s.peek()[1] == '(' :
                # function type
                s.next()
                args = []; va = False
                while not s.accept(')'):
                    if s.accept('...'): va = True
                    else: args.append(s.type())
                    s.accept(',')
                t = FuncT(t, args, va)
            else:
                break
        return t
    def type_list(s, close):
        out = []
        while not s.accept(close):
            out.append(s.type())
            s.accept(',')
        return out

PARAM_ATTRS = {'noundef', 'nonnull', 'zeroext', 'signext', 'noalias', 'nocapture', 'readonly', 'writeonly',
               'returned', 'immarg', 'inreg', 'nest', 'readnone', 'nofree', 'swiftself', 'inrange', 'noundef'}
def skip_param_attrs(p):
    """returns dict of interesting attrs (byval/sret types)"""
    info = {}
    while True:
        k, v = p.peek()
        if v in PARAM_ATTRS:
            p.next()
        elif v in ('align', 'dereferenceable', 'dereferenceable_or_null'):
            p.next()
            if p.accept('('):
                p.next(); p.expect(')')
            else:
                p.next()
        elif v in ('byval', 'sret', 'byref', 'preallocated', 'inalloca', 'elementtype'):
            p.next(); p.expect('('); t = p.type(); p.expect(')')
            info[v] = t
        else:
            break
    return info

# ---------- C type helpers ----------
def cint(bits, signed=False):
    if bits == 1: return 'unsigned char'
    for b in (8, 16, 32, 64):
        if bits <= b: return ('int%d_t' if signed else 'uint%d_t') % b
    if bits <= 128: return '__int128' if signed else 'unsigned __int128'
    raise Exception('int too wide %d' % bits)

def agg_name(t):
    t = resolve(t)
    key = repr(('agg', t.packed, [repr(resolve(f)) if not isinstance(resolve(f), StructT) else agg_name(f) for f in t.fields]))
    if key not in M.aggs:
        M.aggs[key] = ('agg%d' % len(M.aggs), t)
    return M.aggs[key][0]

def ctype(t):
    t = resolve(t)
    if isinstance(t, IntT): return cint(t.bits)
    if isinstance(t, FloatT): return {'float': 'float', 'double': 'double', 'x86_fp80': 'long double'}[t.k]
    if isinstance(t, PtrT): return 'char*'
    if isinstance(t, VoidT): return 'void'
    if isinstance(t, StructT): return 'struct ' + agg_name(t)
    if isinstance(t, ArrT): return 'struct ' + agg_name(StructT([t.el] * t.n, False))
    raise Exception('ctype %r' % t)

def mangle(n):
    n = n[1:]
    if n.startswith('"'): n = n[1:-1]
    if n.startswith('llvm.'): n = n.replace('.', '_')
    return re.sub(r'[^A-Za-z0-9_]', lambda m: '_%02x' % ord(m.group(0)), n)

def gname(n):
    n2 = mangle(n)
    return M.aliases.get(n2, n2)

# ---------- constants / operands ----------
class Val:
    def __init__(s, c, t): s.c = c; s.t = t   # C expr string, LLVM type

def int_mask(bits, expr):
    if bits in (8, 16, 32, 64): return expr
    return '((%s)&%dULL)' % (expr, (1 << bits) - 1)

class FnCtx:
    def __init__(s): s.locals = {}; s.name = None

def operand(p, t, fn):
    """parse a value of (already parsed) type t"""
    k, v = p.next()
    rt = resolve(t)
    if k in ('name', 'qname'):
        if v[0] == '%':
            return Val(local(v), t)
        n = gname(v)
        return Val('((char*)&%s)' % n, t)
    if k == 'num':
        if isinstance(rt, FloatT):
            if v.startswith('0x'):
                import struct
                d = struct.unpack('>d', bytes.fromhex(v[2:].rjust(16, '0')))[0]
                return Val(repr(d), t)
            return Val(v, t)
        iv = int(v, 0)
        bits = rt.bits
        iv &= (1 << bits) - 1
        return Val('((%s)%dULL)' % (cint(bits), iv) if bits <= 64 else '((unsigned __int128)%dULL)' % iv, t)
    if v == 'true': return Val('1', t)
    if v == 'false': return Val('0', t)
    if v == 'null': return Val('((char*)0)', t)
    if v in ('undef', 'poison'):
        if isinstance(rt, (StructT, ArrT)): return Val('(%s){0}' % ctype(t), t)
        if isinstance(rt, PtrT): return Val('((char*)0)', t)
        return Val('0', t)
    if v == 'zeroinitializer':
        if isinstance(rt, (StructT, ArrT)): return Val('(%s){0}' % ctype(t), t)
        if isinstance(rt, PtrT): return Val('((char*)0)', t)
        return Val('0', t)
    if v in ('getelementptr',):
        p.accept('inbounds')
        p.expect('(')
        bt = p.type(); p.expect(',')
        pt = p.type(); skip_param_attrs(p)
        base = operand(p, pt, fn)
        idx = []
        while p.accept(','):
            p.accept('inrange')
            it = p.type(); idx.append(operand(p, it, fn))
        p.expect(')')
        return Val(gep_expr(bt, base, idx), t)
    if v in ('bitcast', 'inttoptr', 'ptrtoint', 'addrspacecast', 'trunc', 'zext', 'sext'):
        p.expect('(')
        st = p.type(); x = operand(p, st, fn); p.expect('to'); dt = p.type(); p.expect(')')
        return Val(cast_expr(v, x, dt), t)
    if v in ('add', 'sub', 'mul', 'and', 'or', 'xor', 'shl', 'lshr'):
        while p.peek()[1] in ('nuw', 'nsw', 'exact'): p.next()
        p.expect('(')
        t1 = p.type(); a = operand(p, t1, fn); p.expect(',')
        t2 = p.type(); b = operand(p, t2, fn); p.expect(')')
        return Val(binop_expr(v, a, b), t)
    if v == 'icmp':
        pred = p.next()[1]
        p.expect('(')
        t1 = p.type(); a = operand(p, t1, fn); p.expect(',')
        t2 = p.type(); b = operand(p, t2, fn); p.expect(')')
        return Val(icmp_expr(pred, a, b), t)
    if v == 'select':
        p.expect('(')
        t1 = p.type(); c = operand(p, t1, fn); p.expect(',')
        t2 = p.type(); a = operand(p, t2, fn); p.expect(',')
        t3 = p.type(); b = operand(p, t3, fn); p.expect(')')
        return Val('(%s?%s:%s)' % (c.c, a.c, b.c), t)
    raise SyntaxError('operand? %r in %r' % ((k, v), p.t))

def local(v):
    return 'v_' + mangle(v)

def gep_expr(bt, base, idx):
    """byte offset GEP"""
    parts = []
    const = 0
    cur = bt
    for n, ix in enumerate(idx):
        if n == 0:
            sz = size_of(cur)
        else:
            r = resolve(cur)
            if isinstance(r, StructT):
                m = re.fullmatch(r'\(\(\w+\)(\d+)ULL\)', ix.c)
                assert m, ('struct gep idx not const', ix.c)
                fi = int(m.group(1))
                const += struct_layout(r)[0][fi]
                cur = r.fields[fi]
                continue
            elif isinstance(r, ArrT):
                cur = r.el
                sz = size_of(cur)
            else:
                raise Exception('gep into %r' % r)
        m = re.fullmatch(r'\(\(\w+\)(\d+)ULL\)', ix.c)
        if m:
            iv = int(m.group(1)); bits = resolve(ix.t).bits
            if iv >= 1 << (bits - 1): iv -= 1 << bits
            const += iv * sz
        else:
            bits = resolve(ix.t).bits
            parts.append('(int64_t)(%s)(%s)*%d' % (cint(bits, True), ix.c, sz))
    e = base.c
    if const or parts:
        e = '(%s + (%s))' % (base.c, ' + '.join(parts + ([str(const)] if const or not parts else [])))
    return e

def cast_expr(op, x, dt):
    st = resolve(x.t); d = resolve(dt)
    if op in ('bitcast', 'addrspacecast'):
        if isinstance(st, PtrT) and isinstance(d, PtrT): return x.c
        if isinstance(st, IntT) and isinstance(d, IntT): return x.c
        # float<->int bitcast
        return '__vp_bitcast_%s_%s(%s)' % (repr(st), repr(d), x.c)
    if op == 'inttoptr': return '((char*)(uintptr_t)%s)' % x.c
    if op == 'ptrtoint': return int_mask(d.bits, '((%s)(uintptr_t)%s)' % (cint(d.bits), x.c))
    if op == 'trunc': return int_mask(d.bits, '((%s)%s)' % (cint(d.bits), x.c))
    if op == 'zext': return '((%s)%s)' % (cint(d.bits), x.c)
    if op == 'sext':
        return int_mask(d.bits, '((%s)%s)' % (cint(d.bits), sx(x)))
    if op in ('uitofp',): return '((%s)%s)' % (ctype(dt), x.c)
    if op in ('sitofp',): return '((%s)%s)' % (ctype(dt), sx(x))
    if op in ('fptoui',): return int_mask(d.bits, '((%s)%s)' % (cint(d.bits), x.c))
    if op in ('fptosi',): return int_mask(d.bits, '((%s)(%s)%s)' % (cint(d.bits), cint(d.bits, True), x.c))
    if op in ('fpext', 'fptrunc'): return '((%s)%s)' % (ctype(dt), x.c)
    raise Exception('cast ' + op)

def sx(x):
    """signed view of int value"""
    bits = resolve(x.t).bits
    if bits in (8, 16, 32, 64): return '((%s)%s)' % (cint(bits, True), x.c)
    cb = 8
    while cb < bits: cb *= 2
    sh = cb - bits
    return '((%s)((%s)(%s << %d)) >> %d)' % (cint(cb, True), cint(cb, True), x.c, sh, sh)

def binop_expr(op, a, b):
    t = resolve(a.t)
    if isinstance(t, FloatT):
        o = {'fadd': '+', 'fsub': '-', 'fmul': '*', 'fdiv': '/'}[op]
        return '(%s %s %s)' % (a.c, o, b.c)
    bits = t.bits
    ct = cint(bits)
    wide = 'unsigned __int128' if bits > 64 else ('uint64_t' if bits > 32 else 'uint32_t')
    if op in ('add', 'sub', 'mul', 'and', 'or', 'xor'):
        o = {'add': '+', 'sub': '-', 'mul': '*', 'and': '&', 'or': '|', 'xor': '^'}[op]
        return int_mask(bits, '((%s)((%s)%s %s (%s)%s))' % (ct, wide, a.c, o, wide, b.c))
    if op == 'shl': return int_mask(bits, '((%s)((%s)%s << %s))' % (ct, wide, a.c, b.c))
    if op == 'lshr': return '((%s)((%s)%s >> %s))' % (ct, wide, a.c, b.c)
    if op == 'ashr': return int_mask(bits, '((%s)(%s >> %s))' % (ct, sx(a), b.c))
    if op == 'udiv': return '((%s)(%s / %s))' % (ct, a.c, b.c)
    if op == 'urem': return '((%s)(%s %% %s))' % (ct, a.c, b.c)
    if op == 'sdiv': return int_mask(bits, '((%s)(%s / %s))' % (ct, sx(a), sx(b)))
    if op == 'srem': return int_mask(bits, '((%s)(%s %% %s))' % (ct, sx(a), sx(b)))
    raise Exception('binop ' + op)

def icmp_expr(pred, a, b):
    t = resolve(a.t)
    if isinstance(t, PtrT):
        o = {'eq': '==', 'ne': '!=', 'ult': '<', 'ule': '<=', 'ugt': '>', 'uge': '>='}[pred]
        if pred in ('eq', 'ne'): return '(%s %s %s)' % (a.c, o, b.c)
        # relational comparison: by (signed) offset inside one object, as the hardware does for a pointer stepped just outside its object
        return '__vp_pcmp(%s, %s, %s)' % (a.c, o, b.c)
    if pred in ('eq', 'ne', 'ult', 'ule', 'ugt', 'uge'):
        o = {'eq': '==', 'ne': '!=', 'ult': '<', 'ule': '<=', 'ugt': '>', 'uge': '>='}[pred]
        return '(%s %s %s)' % (a.c, o, b.c)
    o = {'slt': '<', 'sle': '<=', 'sgt': '>', 'sge': '>='}[pred]
    return '(%s %s %s)' % (sx(a), o, sx(b))

# ---------- global initialisers ----------
def global_ctype_decl(t, name):
    """C declaration for a global of LLVM type t with layout-identical struct"""
    return '%s %s' % (layout_ctype(t), name)

_lay = {}
def layout_ctype(t):
    r = resolve(t)
    if isinstance(r, IntT): return cint(r.bits)
    if isinstance(r, FloatT): return ctype(r)
    if isinstance(r, PtrT): return 'char*'
    key = repr(r) if not (isinstance(r, StructT) and r.name) else r.name
    if isinstance(r, StructT): key = ('S', r.packed, tuple(layout_ctype(f) for f in r.fields))
    if isinstance(r, ArrT): key = ('A', r.n, layout_ctype(r.el))
    if key in _lay: return _lay[key][0]
    nm = 'struct lay%d' % len(_lay)
    if isinstance(r, ArrT):
        body = '%s e[%d];' % (layout_ctype(r.el), max(r.n, 1))
    else:
        offs, total = struct_layout(r)
        body = ''
        pos = 0
        for i, f in enumerate(r.fields):
            if offs[i] > pos:
                body += 'char pad%d[%d]; ' % (i, offs[i] - pos)
            body += '%s f%d; ' % (layout_ctype(f), i)
            pos = offs[i] + size_of(f)
        if total > pos: body += 'char padend[%d];' % (total - pos)
        if not r.fields: body = 'char empty_[1];'
    _lay[key] = (nm, body)
    return nm

LAST_STR = [None]
def const_init(p, t):
    """parse a constant initialiser of type t, return C initialiser text"""
    r = resolve(t)
    k, v = p.peek()
    if v == 'zeroinitializer':
        p.next(); return '{0}' if isinstance(r, (StructT, ArrT)) else '0'
    if v in ('undef', 'poison'):
        p.next(); return '{0}' if isinstance(r, (StructT, ArrT)) else '0'
    if isinstance(r, ArrT):
        if k == 'str':
            p.next()
            s = v[2:-1]
            bs = []
            i = 0
            while i < len(s):
                if s[i] == '\\':
                    bs.append(int(s[i+1:i+3], 16)); i += 3
                else:
                    bs.append(ord(s[i])); i += 1
            LAST_STR[0] = bytes(bs)
            return '{.e={' + ','.join(map(str, bs)) + '}}'
        p.expect('[')
        items = []
        while not p.accept(']'):
            et = p.type(); items.append(const_init(p, et)); p.accept(',')
        return '{.e={' + ','.join(items) + '}}' if items else '{0}'
    if isinstance(r, StructT):
        packed = False
        if p.accept('<'): packed = True
        p.expect('{')
        items = []
        while not p.accept('}'):
            et = p.type(); items.append(const_init(p, et)); p.accept(',')
        if packed: p.expect('>')
        return '{' + ','.join('.f%d=%s' % (i, x) for i, x in enumerate(items)) + '}' if items else '{0}'
    return operand(p, t, None).c

# ---------- module parsing ----------
def parse_module(text):
    lines = text.split('\n')
    i = 0
    fn_bodies = []
    while i < len(lines):
        ln = lines[i]
        if ln.startswith('%') and ' = type ' in ln:
            toks = tokenize(ln)
            p = P(toks)
            name = p.next()[1]; p.expect('='); p.expect('type')
            t = p.type()
            if isinstance(t, StructT): t.name = name
            M.named[name] = t
        elif ln.startswith('@'):
            M_globals_raw.append(ln)
        elif ln.startswith('declare '):
            parse_fn_header(ln, None)
        elif ln.startswith('define '):
            body = []
            j = i + 1
            while lines[j] != '}':
                body.append(lines[j]); j += 1
            fn_bodies.append((ln, body))
            i = j
        elif ln.startswith('attributes #'):
            m = re.match(r'attributes (#\d+) = \{(.*)\}', ln)
            M.attrs[m.group(1)] = m.group(2)
        i += 1
    return fn_bodies

M_globals_raw = []
MD = {}
_dbg_cache = {}
def parse_md(text):
    for m in re.finditer(r'^(!\d+) = (?:distinct )?!(DI\w+)\((.*)\)\s*$', text, re.M):
        MD[m.group(1)] = (m.group(2), m.group(3))
def md_file(ref, depth=0):
    if ref in _dbg_cache: return _dbg_cache[ref]
    r = None
    ent = MD.get(ref)
    if ent and depth < 50:
        kind, body = ent
        if kind == 'DIFile':
            m = re.search(r'filename: "([^"]*)"', body)
            d = re.search(r'directory: "([^"]*)"', body)
            r = m.group(1) if m else None
            if r and not r.startswith('/') and d: r = d.group(1) + '/' + r
        else:
            m = re.search(r'\bfile: (!\d+)', body)
            if m: r = md_file(m.group(1), depth + 1)
            else:
                m = re.search(r'\bscope: (!\d+)', body)
                if m: r = md_file(m.group(1), depth + 1)
    _dbg_cache[ref] = r
    return r
def dbg_loc(ref):
    ent = MD.get(ref)
    if not ent or ent[0] != 'DILocation': return None
    m = re.search(r'line: (\d+)', ent[1]); sc = re.search(r'scope: (!\d+)', ent[1])
    if not m or not sc or m.group(1) == '0': return None
    f = md_file(sc.group(1))
    if not f: return None
    return (int(m.group(1)), f)
STRCONST = {}

LINKAGE = {'private', 'internal', 'available_externally', 'linkonce', 'weak', 'common', 'appending', 'extern_weak',
           'linkonce_odr', 'weak_odr', 'external', 'dso_local', 'dso_preemptable', 'default', 'hidden', 'protected',
           'unnamed_addr', 'local_unnamed_addr', 'thread_local', 'noundef', 'nonnull', 'zeroext', 'signext', 'noalias',
           'fastcc', 'ccc', 'coldcc'}

class Fn:
    pass

def parse_fn_header(ln, body):
    toks = [t for t in tokenize(ln) if t[0] != 'meta']
    if toks[-1][1] == '{': toks = toks[:-1]
    p = P(toks)
    p.next()  # define/declare
    while p.peek()[1] in LINKAGE or p.peek()[1] in ('align', 'dereferenceable', 'dereferenceable_or_null'):
        v = p.next()[1]
        if v in ('align',): p.next()
        if v.startswith('dereferenceable'):
            p.expect('('); p.next(); p.expect(')')
    ret = p.type()
    name = p.next()[1]
    p.expect('(')
    args = []; va = False
    while not p.accept(')'):
        if p.accept('...'):
            va = True
        else:
            at = p.type()
            info = skip_param_attrs(p)
            an = None
            if p.peek()[0] in ('name', 'qname'): an = p.next()[1]
            args.append((at, an, info))
        p.accept(',')
    f = Fn()
    f.name = mangle(name); f.ret = ret; f.args = args; f.va = va; f.body = body
    f.attrs = [v for k, v in toks[p.i:] if k == 'attr']
    f.nounwind = any('nounwind' in M.attrs.get(a, '') for a in f.attrs) if M.attrs else False
    f.raw_attr_toks = toks[p.i:]
    if body is None:
        M.decls[f.name] = f
    else:
        M.funcs[f.name] = f
    return f

def fn_proto(f, name=None):
    args = ', '.join(ctype(a[0]) for a in f.args)
    if f.va: args += ', ...' if args else ''
    if not args: args = 'void' if not f.va else ''
    return '%s %s(%s)' % (ctype(f.ret), name or f.name, args)

# ---------- function body translation ----------
RUNTIME_NOUNWIND = {'__cxa_allocate_exception', '__cxa_free_exception', '__cxa_begin_catch', '__cxa_end_catch',
                    '_ZdlPv', '_ZdaPv', 'malloc', 'free', 'memcpy', 'memmove', 'memset', 'memcmp', 'strlen'}

def callee_nounwind(name, attr_toks):
    if name is None: return False
    if name in RUNTIME_NOUNWIND or name.startswith('llvm_') or name.startswith('vp_') or name.startswith('nondet_') or name.startswith('__CPROVER'): return True
    f = M.funcs.get(name) or M.decls.get(name)
    if f is not None:
        return any('nounwind' in M.attrs.get(a, '') for a in f.attrs)
    return False

def zero_of(t):
    r = resolve(t)
    if isinstance(r, VoidT): return ''
    if isinstance(r, (StructT, ArrT)): return '(%s){0}' % ctype(t)
    if isinstance(r, PtrT): return '(char*)0'
    return '0'

def translate_fn(f, out):
    # split into blocks
    blocks = collections.OrderedDict()
    cur = str(sum(1 for a in f.args if a[1] is None or re.fullmatch(r'%\d+', a[1])))
    # entry label is implicit number: count args to know
    blocks[cur] = []
    for ln in f.body:
        s = ln.strip()
        if not s or s.startswith(';'): continue
        m = re.match(r'^([-a-zA-Z$._0-9]+|"[^"]*"):', ln)
        if m and not ln.startswith(' '):
            cur = m.group(1); blocks[cur] = []
            continue
        blocks[cur].append(s)
    # join continuation lines (invoke 'to label', switch cases, landingpad clauses)
    for b in list(blocks):
        joined = []
        for s in blocks[b]:
            if joined and (s.startswith('to label') or s.startswith('cleanup') or s.startswith('catch ') or s.startswith('filter ')
                           or joined[-1].rstrip().endswith('[') or (joined[-1].count('[') > joined[-1].count(']') and ' switch ' in ' ' + joined[-1])):
                joined[-1] += ' ' + s
            elif s == ']' and joined:
                joined[-1] += ' ]'
            else:
                joined.append(s)
        blocks[b] = joined
    NEW_TYPES.clear(); I8SRC.clear(); P2I.clear(); LOADSRC.clear(); GEPK.clear(); ICMPX.clear(); PROV.clear()
    for ln_ in f.body:
        m_ = re.match(r'\s*%\S+ = bitcast i8\* (%[-\w.$]+) to (%"[^"]+"|%[-\w.$]+)\*\s*(,|$)', ln_)
        if m_ and m_.group(1) not in NEW_TYPES:
            NEW_TYPES[m_.group(1)] = NamedT(m_.group(2))
    # first pass: collect types of locals & phis
    decls = collections.OrderedDict()
    code = []
    phis = collections.defaultdict(list)   # block -> [(dst, type, [(valtoks, pred)])]
    fnret = f.ret
    for (at, an, info) in f.args:
        pass
    cur_loc = [None]
    def lab(name):
        return 'L_' + mangle('%' + name)
    def emit(s):
        if cur_loc[0]: code.append('#line %d "%s"' % cur_loc[0])
        code.append('  ' + s)
    entry_label = None
    for bname, insts in blocks.items():
        code.append('%s: ;' % lab(bname))
        ICMPX.clear()   # comparisons are only re-used inside their own block (phi variables change across blocks)
        for s in insts:
            toks = tokenize(s)
            md_ = re.search(r'!dbg (!\d+)', s)
            if md_:
                loc_ = dbg_loc(md_.group(1))
                if loc_: cur_loc[0] = loc_
            # strip trailing metadata  ", !dbg !12"
            cut = len(toks)
            for ti, (k, v) in enumerate(toks):
                if k == 'meta' and ti > 0 and toks[ti-1][1] == ',':
                    cut = ti - 1; break
            toks = toks[:cut]
            p = P(toks)
            dst = None
            if p.peek(1)[1] == '=' and p.peek()[0] in ('name', 'qname'):
                dst = p.next()[1]; p.next()
            op = p.next()[1]
            def setv(t, expr):
                if dst is None or isinstance(resolve(t), VoidT):
                    emit('%s;' % expr); return
                decls[local(dst)] = ctype(t)
                emit('%s = %s;' % (local(dst), expr))
            if op == 'phi':
                t = p.type()
                inc = []
                while p.accept('['):
                    v = operand(p, t, f); p.expect(',')
                    pl = p.next()[1]; p.expect(']'); p.accept(',')
                    inc.append((v.c, pl[1:].strip('"') if pl.startswith('%"') else pl[1:]))
                decls[local(dst)] = ctype(t)
                phis[bname].append((local(dst), ctype(t), inc))
            elif op == 'alloca':
                p.accept('inalloca')
                t = p.type()
                n = '1'
                if p.accept(','):
                    if p.peek()[1] != 'align':
                        nt = p.type(); n = operand(p, nt, f).c
                sz = size_of(t)
                arr = 'a_' + mangle(dst)
                m = re.fullmatch(r'\(\(\w+\)(\d+)ULL\)', n)
                cnt = int(m.group(1)) if m else (1 if n == '1' else None)
                assert cnt is not None, 'dynamic alloca'
                rt_ = resolve(t)
                if cnt == 1 and isinstance(rt_, (StructT, ArrT)) and sz > 0:
                    decls[arr] = ('typed', layout_ctype(t))
                    decls[local(dst)] = 'char*'
                    emit('%s = (char*)&%s;' % (local(dst), arr))
                    PROV[local(dst)] = (t, 0)
                else:
                    decls[arr] = ('char', max(sz * cnt, 1))
                    decls[local(dst)] = 'char*'
                    emit('%s = %s;' % (local(dst), arr))
            elif op == 'load':
                p.accept('volatile'); p.accept('atomic')
                t = p.type(); p.expect(','); pt = p.type(); a = operand(p, pt, f)
                rt_ = resolve(t)
                if isinstance(rt_, IntT) and rt_.bits not in (1, 8, 16, 32, 64) and rt_.bits % 8 == 0 and rt_.bits < 64:
                    nb = rt_.bits // 8
                    setv(t, '({ char* s_ = %s; (%s)(%s); })' % (a.c, ctype(t), ' | '.join('((uint64_t)*(uint8_t*)(s_+%d) << %d)' % (i, 8 * i) for i in range(nb))))
                else:
                    sp_ = split_access(a.c, rt_)
                    if sp_:
                        setv(t, '(%s)(%s)' % (ctype(t), ' | '.join('((uint64_t)*(%s*)(%s + (%d)) << %d)' % (ctype(lt_), a.c, lo_, sh_) for lo_, lt_, sh_ in sp_)))
                    else:
                        setv(t, '*(%s*)%s' % (ctype(t), a.c))
                if dst: LOADSRC[local(dst)] = a.c
            elif op == 'store':
                p.accept('volatile'); p.accept('atomic')
                t = p.type(); v = operand(p, t, f); p.expect(','); pt = p.type(); a = operand(p, pt, f)
                rt_ = resolve(t)
                if isinstance(rt_, IntT) and rt_.bits not in (1, 8, 16, 32, 64) and rt_.bits % 8 == 0 and rt_.bits < 64:
                    nb = rt_.bits // 8
                    emit('{ char* d_ = %s; uint64_t x_ = %s; %s }' % (a.c, v.c, ' '.join('*(uint8_t*)(d_+%d) = (uint8_t)(x_ >> %d);' % (i, 8 * i) for i in range(nb))))
                else:
                    sp_ = split_access(a.c, rt_)
                    if sp_:
                        emit('{ uint64_t x_ = (uint64_t)(%s); %s }' % (v.c, ' '.join('*(%s*)(%s + (%d)) = (%s)(x_ >> %d);' % (ctype(lt_), a.c, lo_, ctype(lt_), sh_) for lo_, lt_, sh_ in sp_)))
                    else:
                        emit('*(%s*)%s = %s;' % (ctype(t), a.c, v.c))
            elif op == 'getelementptr':
                p.accept('inbounds')
                bt = p.type(); p.expect(','); pt = p.type(); base = operand(p, pt, f)
                idx = []
                while p.accept(','):
                    it = p.type(); idx.append(operand(p, it, f))
                ge_ = gep_expr(bt, base, idx)
                setv(PtrT(IntT(8)), ge_)
                if dst and base.c in PROV:
                    mg_ = re.fullmatch(r'\(%s \+ \((-?\d+)\)\)' % re.escape(base.c), ge_)
                    if ge_ == base.c: PROV[local(dst)] = PROV[base.c]
                    elif mg_ and PROV[base.c][1] + int(mg_.group(1)) >= 0: PROV[local(dst)] = (PROV[base.c][0], PROV[base.c][1] + int(mg_.group(1)))
                if dst and len(idx) == 1:
                    mk_ = re.fullmatch(r'\(\(\w+\)(\d+)ULL\)', idx[0].c)
                    if mk_: GEPK[local(dst)] = (base.c, int(mk_.group(1)) * size_of(bt))
            elif op in ('bitcast', 'inttoptr', 'ptrtoint', 'trunc', 'zext', 'sext', 'uitofp', 'sitofp', 'fptoui', 'fptosi', 'fpext', 'fptrunc', 'addrspacecast'):
                st = p.type(); x = operand(p, st, f); p.expect('to'); dt = p.type()
                setv(dt, cast_expr(op, x, dt))
                if op == 'bitcast' and dst and x.c in PROV: PROV[local(dst)] = PROV[x.c]
                if op == 'ptrtoint' and dst and resolve(dt).bits == 64: P2I[local(dst)] = x.c
                if op == 'bitcast' and dst and isinstance(resolve(st), PtrT) and isinstance(resolve(dt), PtrT) and not isinstance(resolve(resolve(st).to), (IntT, FuncT, OpaqueT)):
                    I8SRC[local(dst)] = resolve(st).to
            elif op in ('add', 'sub', 'mul', 'and', 'or', 'xor', 'shl', 'lshr', 'ashr', 'udiv', 'sdiv', 'urem', 'srem', 'fadd', 'fsub', 'fmul', 'fdiv'):
                while p.peek()[1] in ('nuw', 'nsw', 'exact', 'fast', 'nnan', 'ninf', 'nsz', 'arcp', 'contract', 'afn', 'reassoc'): p.next()
                t = p.type(); a = operand(p, t, f); p.expect(','); b = operand(p, t, f)
                if op == 'sub' and a.c in P2I and b.c in P2I:
                    # pointer difference: keep it a pointer subtraction (CBMC decides it on offsets; integer addresses are nondeterministic)
                    setv(t, '__vp_pdiff(%s, %s)' % (P2I[a.c], P2I[b.c]))
                else:
                    setv(t, binop_expr(op, a, b))
            elif op == 'icmp':
                pred = p.next()[1]; t = p.type(); a = operand(p, t, f); p.expect(','); b = operand(p, t, f)
                setv(IntT(1), icmp_expr(pred, a, b))
                if dst: ICMPX[local(dst)] = icmp_expr(pred, a, b)
            elif op == 'fcmp':
                pred = p.next()[1]; t = p.type(); a = operand(p, t, f); p.expect(','); b = operand(p, t, f)
                o = {'oeq': '==', 'one': '!=', 'olt': '<', 'ole': '<=', 'ogt': '>', 'oge': '>=', 'ueq': '==', 'une': '!=', 'ult': '<', 'ule': '<=', 'ugt': '>', 'uge': '>='}[pred]
                setv(IntT(1), '(%s %s %s)' % (a.c, o, b.c))
            elif op == 'select':
                ct_ = p.type(); c = operand(p, ct_, f); p.expect(',')
                t = p.type(); a = operand(p, t, f); p.expect(','); t2 = p.type(); b = operand(p, t2, f)
                setv(t, '(%s ? %s : %s)' % (c.c, a.c, b.c))
            elif op == 'extractvalue':
                t = p.type(); a = operand(p, t, f)
                cur = t; expr = a.c
                while p.accept(','):
                    ix = int(p.next()[1])
                    r = resolve(cur)
                    if isinstance(r, StructT): cur = r.fields[ix]
                    else: cur = r.el
                    expr += '.f%d' % ix
                setv(cur, expr)
            elif op == 'insertvalue':
                t = p.type(); a = operand(p, t, f); p.expect(','); et = p.type(); e = operand(p, et, f)
                path = ''
                while p.accept(','):
                    path += '.f%d' % int(p.next()[1])
                decls[local(dst)] = ctype(t)
                emit('%s = %s; %s%s = %s;' % (local(dst), a.c, local(dst), path, e.c))
            elif op == 'br':
                if p.peek()[1] == 'label':
                    p.next(); tgt = p.next()[1]
                    emit(phi_goto(bname, tgt[1:].strip('"')))
                else:
                    t = p.type(); c = operand(p, t, f); p.expect(','); p.expect('label'); t1 = p.next()[1]; p.expect(','); p.expect('label'); t2 = p.next()[1]
                    # branch directly on the comparison (SSA operands are unchanged): lets CBMC filter pointer value sets on `p != 0` branches
                    if c.c in ICMPX: c = Val(ICMPX[c.c], c.t)
                    emit('if (%s) { %s } else { %s }' % (c.c, phi_goto(bname, t1[1:].strip('"')), phi_goto(bname, t2[1:].strip('"'))))
            elif op == 'switch':
                t = p.type(); c = operand(p, t, f); p.expect(','); p.expect('label'); dflt = p.next()[1]
                p.expect('[')
                emit('switch (%s) {' % c.c)
                while not p.accept(']'):
                    ct2 = p.type(); cv = operand(p, ct2, f); p.expect(','); p.expect('label'); tg = p.next()[1]
                    emit('  case %s: { %s }' % (cv.c, phi_goto(bname, tg[1:].strip('"'))))
                emit('  default: { %s }' % phi_goto(bname, dflt[1:].strip('"')))
                emit('}')
            elif op == 'ret':
                t = p.type()
                if isinstance(resolve(t), VoidT): emit('return;')
                else:
                    v = operand(p, t, f); emit('return %s;' % v.c)
            elif op == 'unreachable':
                emit('__CPROVER_assert(0, "unreachable reached"); __CPROVER_assume(0);')
            elif op == 'resume':
                t = p.type(); v = operand(p, t, f)
                emit('__vp_exc = 1; return %s;' % zero_of(fnret))
            elif op == 'landingpad':
                t = p.type()
                cleanup = False; clauses = []
                while not p.eof():
                    w = p.next()[1]
                    if w == 'cleanup': cleanup = True
                    elif w == 'catch':
                        ct3 = p.type(); cv = operand(p, ct3, f); clauses.append(cv.c)
                    elif w == 'filter':
                        raise Exception('filter clause')
                decls[local(dst)] = ctype(t)
                emit('__vp_exc = 0; %s.f0 = __vp_exc_obj; %s.f1 = 0;' % (local(dst), local(dst)))
                first = True
                for cv in clauses:
                    emit('%sif (__vp_ti_match(__vp_exc_ti, %s)) %s.f1 = __vp_typeid(%s);' % ('' if first else 'else ', cv, local(dst), cv))
                    first = False
                if not cleanup:
                    emit('%s{ __vp_exc = 1; return %s; }' % ('else ' if clauses else '', zero_of(fnret)))
            elif op in ('call', 'invoke'):
                while p.peek()[1] in ('tail', 'musttail', 'notail') : p.next()
                while p.peek()[1] in LINKAGE or p.peek()[1] in ('align', 'dereferenceable', 'dereferenceable_or_null', 'fast', 'nnan', 'ninf', 'nsz'):
                    v = p.next()[1]
                    if v == 'align': p.next()
                    if v.startswith('dereferenceable'):
                        p.expect('('); p.next(); p.expect(')')
                rt = p.type()   # may be full function type for varargs
                fty = None
                if isinstance(rt, PtrT) and isinstance(resolve(rt.to), FuncT) and p.peek()[0] in ('name', 'qname') and False:
                    pass
                if isinstance(rt, FuncT):
                    fty = rt; rt = fty.ret
                # callee
                k, v = p.peek()
                callee_name = None
                if k in ('name', 'qname') and v[0] == '@':
                    p.next(); callee_name = gname(v); callee = callee_name
                elif k in ('name', 'qname'):
                    p.next(); callee = local(v)
                else:
                    cv = operand(p, PtrT(IntT(8)), f); callee = cv.c   # constant-expr callee (bitcast)
                    m = re.fullmatch(r'\(\(char\*\)&(\w+)\)', callee)
                    if m: callee_name = m.group(1)
                p.expect('(')
                args = []; argts = []
                while not p.accept(')'):
                    at = p.type(); info = skip_param_attrs(p)
                    if isinstance(at, MetaT):
                        # metadata operand: skip tokens until , or )
                        depth = 0
                        while True:
                            k2, v2 = p.peek()
                            if depth == 0 and v2 in (',', ')'): break
                            if v2 == '(': depth += 1
                            if v2 == ')': depth -= 1
                            p.next()
                        args.append(None)
                    else:
                        args.append(operand(p, at, f)); argts.append(at)
                    p.accept(',')
                rest = toks[p.i:]
                expr = call_expr(callee_name, callee, rt, args, argts, fty)
                if callee_name is None and callee in LOADSRC:
                    # virtual call: %vt = load obj; %slot = gep %vt, K; %fp = load %slot  ->  explicit dispatch over the functions that
                    # occupy slot K in some vtable of the module (CBMC's own function-pointer removal would try every address-taken
                    # function of a compatible type, and explores them recursively when it cannot fold the comparison)
                    src_ = LOADSRC[callee]; slot_ = None
                    if src_ in GEPK and GEPK[src_][0] in LOADSRC: slot_ = GEPK[src_][1]
                    elif src_ in LOADSRC: slot_ = 0
                    if slot_ is not None and slot_ % 8 == 0:
                        cands = virtual_candidates(slot_ // 8, len([x for x in args if x is not None]), rt)
                        if cands:
                            av = [x.c for x in args if x is not None]
                            isvoid = isinstance(resolve(rt), VoidT)
                            parts = []
                            for cn in cands:
                                if cn == '__cxa_pure_virtual': call_ = '__cxa_pure_virtual()'
                                else: call_ = '%s(%s)' % (cn, ', '.join(av))
                                parts.append('if (%s == (char*)&%s) { %s%s; }' % (callee, cn, '' if isvoid or cn == '__cxa_pure_virtual' else 'r_ = ', call_))
                            body_ = ' else '.join(parts) + ' else { __CPROVER_assert(0, "virtual call reaches a function found in that vtable slot"); __CPROVER_assume(0); }'
                            expr = ('({ %s })' % body_) if isvoid else ('({ %s r_; %s r_; })' % (ctype(rt), body_))
                if callee_name in ('_Znwm',) and dst is not None:
                    m_ = re.fullmatch(r'\(\(\w+\)(\d+)ULL\)', args[0].c)
                    bt_ = NEW_TYPES.get(dst)
                    if m_ and bt_ is not None and size_of(bt_) == int(m_.group(1)):
                        expr = '__vp_new_typed(sizeof(%s), (char*)malloc(sizeof(%s)))' % (layout_ctype(bt_), layout_ctype(bt_))
                    elif bt_ is not None and size_of(bt_) > 1 and isinstance(resolve(bt_), StructT):
                        expr = '__vp_new_typed(0, (char*)malloc(sizeof(%s) * (%s / %d)))' % (layout_ctype(bt_), args[0].c, size_of(bt_))
                nounw = callee_nounwind(callee_name, rest) or any(k == 'attr' and 'nounwind' in M.attrs.get(v, '') for k, v in rest)
                if expr is not None:
                    setv(rt, expr)
                if op == 'invoke':
                    # to label %a unwind label %b
                    pi = P(rest)
                    while pi.peek()[1] != 'to': pi.next()
                    pi.next(); pi.expect('label'); ok = pi.next()[1]; pi.expect('unwind'); pi.expect('label'); lp = pi.next()[1]
                    emit('if (__vp_exc) { %s } else { %s }' % (phi_goto(bname, lp[1:].strip('"')), phi_goto(bname, ok[1:].strip('"'))))
                elif not nounw and expr is not None:
                    emit('if (__vp_exc) return %s;' % zero_of(fnret))
            elif op == 'freeze':
                t = p.type(); a = operand(p, t, f); setv(t, a.c)
            elif op == 'fneg':
                t = p.type(); a = operand(p, t, f); setv(t, '(-%s)' % a.c)
            else:
                raise Exception('unhandled op %s in %s: %s' % (op, f.name, s))
    # emit
    out.append(fn_proto_named(f) + ' {')
    for (at, an, info) in f.args:
        if 'byval' in info:
            sz = size_of(info['byval'])
            out.append('  char bv_%s[%d]; memcpy(bv_%s, %s, %d); %s = bv_%s;' % (mangle(an), sz, mangle(an), local(an), sz, local(an), mangle(an)))
    for n, ct_ in decls.items():
        if isinstance(ct_, tuple) and ct_[0] == 'typed':
            out.append('  %s %s;' % (ct_[1], n))
        elif isinstance(ct_, tuple):
            out.append('  %s %s[%d] __attribute__((aligned(16)));' % (ct_[0], n, ct_[1]))
        else:
            out.append('  %s %s;' % (ct_, n))
    # phi temp decls
    for b, lst in phis.items():
        for (d, ct_, inc) in lst:
            out.append('  %s %s_t;' % (ct_, d))
    PHIS.clear(); PHIS.update(phis)
    for ln in code:
        out.append(resolve_phi_gotos(ln))
    out.append('}')

PHIS = {}
I8SRC = {}
P2I = {}
LOADSRC = {}
GEPK = {}
ICMPX = {}
VTABLES = {}   # vtable global -> [function name or None per element]
def collect_vtables():
    for ln in M_globals_raw:
        m = re.match(r'@(_ZTV[\w.$]+) = ', ln)
        if not m or ' external ' in ln.split('{')[0] and '[' not in ln: continue
        i = ln.find('] } {')
        if i < 0: continue
        body = ln[i:]
        els = []
        depth = 0; cur = ''
        j = body.find('] [', 4)
        if j < 0: continue
        k = j + 3
        while k < len(body):
            ch = body[k]
            if ch in '([': depth += 1
            if ch in ')]':
                if depth == 0: break
                depth -= 1
            if ch == ',' and depth == 0:
                els.append(cur.strip()); cur = ''
            else: cur += ch
            k += 1
        if cur.strip(): els.append(cur.strip())
        names = []
        for e in els:
            mm = re.search(r'@("[^"]+"|[\w.$]+)', e)
            names.append(mangle('@' + mm.group(1)) if mm and 'null' != e.split()[-1] else None)
        VTABLES[m.group(1)] = names
def virtual_candidates(slot, nargs, rt):
    out = []
    for vt, names in VTABLES.items():
        idx = 2 + slot
        if idx < len(names) and names[idx] and not names[idx].startswith('_ZTI'):
            n = M.aliases.get(names[idx], names[idx])
            fobj = M.funcs.get(n) or M.decls.get(n)
            if n == '__cxa_pure_virtual' or (fobj is not None and len(fobj.args) == nargs and repr(resolve(fobj.ret)) == repr(resolve(rt))):
                if n not in out: out.append(n)
    return out
def leaves(t, base):
    r = resolve(t)
    if isinstance(r, StructT):
        offs, _ = struct_layout(r)
        out = []
        for o, f in zip(offs, r.fields): out += leaves(f, base + o)
        return out
    if isinstance(r, ArrT):
        out = []
        es = size_of(r.el)
        for i in range(r.n): out += leaves(r.el, base + i * es)
        return out
    return [(base, r)]
NEW_TYPES = {}
PROV = {}    # local pointer -> (LLVM type of the typed alloca it points into, constant byte offset)
def split_access(ptr, rt_):
    """An integer load/store through a pointer with known provenance (typed alloca + constant offset) that does not coincide with one scalar field
    but covers several whole integer fields (e.g. a pair returned in registers and spilled with one 64-bit store): returns [(delta, leaf type, shift)]
    so that the access is emitted field by field.  CBMC's simplifier folds field-typed accesses of constants, but not a wide byte_extract over a struct
    that also spans (uninitialised) padding - which made std::map keys built by libtins symbolic.  Padding bytes covered by the access read as 0 / are not written."""
    if os.environ.get('VP_NO_SPLIT') or ptr not in PROV or not isinstance(rt_, IntT) or rt_.bits not in (16, 32, 64): return None
    t0, off = PROV[ptr]
    n = rt_.bits // 8
    try: lv = leaves(t0, 0)
    except Exception: return None
    inside = []
    for lo, lt in lv:
        ls = size_of(lt)
        if ls == 0 or lo + ls <= off or lo >= off + n: continue
        if lo < off or lo + ls > off + n: return None          # a field straddles the access: leave it to CBMC
        if not isinstance(lt, IntT) or lt.bits not in (8, 16, 32, 64): return None
        inside.append((lo - off, lt, 8 * (lo - off)))
    if len(inside) < 2: return None                              # exact match (or only padding): nothing to split
    if all(lt.bits == 8 for _, lt, _ in inside): return None     # byte arrays are handled well as they are
    return inside

def phi_goto(frm, to):
    return '/*PHI %s -> %s*/' % (frm, to)

def resolve_phi_gotos(ln):
    def rep(m):
        frm, to = m.group(1), m.group(2)
        lst = PHIS.get(to, [])
        s = ''
        moves = []
        for (d, ct_, inc) in lst:
            for (v, pl) in inc:
                if pl == frm:
                    moves.append((d, v)); break
            else:
                raise Exception('phi: no incoming from %s in %s' % (frm, to))
        for d, v in moves: s += '%s_t = %s; ' % (d, v)
        for d, v in moves: s += '%s = %s_t; ' % (d, d)
        return s + 'goto L_%s;' % mangle('%' + to)
    return re.sub(r'/\*PHI (.*?) -> (.*?)\*/', rep, ln)

def fn_proto_named(f):
    args = ', '.join('%s %s' % (ctype(a[0]), local(a[1]) if a[1] else 'arg%d' % i) for i, a in enumerate(f.args))
    if f.va: args += ', ...'
    if not args: args = 'void'
    return '%s %s(%s)' % (ctype(f.ret), f.name, args)

def call_expr(name, callee, rt, args, argts, fty):
    a = [x for x in args if x is not None]
    if name and name.startswith('llvm_'):
        if name.startswith('llvm_lifetime') or name.startswith('llvm_dbg') or name.startswith('llvm_experimental_noalias') or name.startswith('llvm_assume'):
            return None
        if name.startswith('llvm_invariant'): return None if name.startswith('llvm_invariant_end') else '((char*)0)'
        if name.startswith('llvm_expect'): return a[0].c
        if name.startswith('llvm_is_constant'): return '0'
        if name.startswith('llvm_memcpy') or name.startswith('llvm_memmove') or name.startswith('llvm_memset'):
            m = re.fullmatch(r'\(\(\w+\)(\d+)ULL\)', a[2].c)
            if m and int(m.group(1)) <= 256:
                n = int(m.group(1))
                if n == 0: return None
                isset = name.startswith('llvm_memset')
                ty = I8SRC.get(a[0].c) or (None if isset else I8SRC.get(a[1].c))
                lv = None
                if ty is not None and size_of(ty) >= n:
                    lv = [(o, t) for (o, t) in leaves(ty, 0) if o < n]
                    if any(o + size_of(t) > n for o, t in lv): lv = None
                if lv is None and n <= 64:
                    lv = [(i, IntT(8)) for i in range(n)]
                if lv is not None:
                    if isset:
                        zero = re.fullmatch(r'\(\(\w+\)0ULL\)', a[1].c) is not None
                        if zero or all(isinstance(resolve(t), IntT) and resolve(t).bits == 8 for o, t in lv):
                            return '({ char* d_ = %s; %s (void)0; })' % (a[0].c, ' '.join('*(%s*)(d_+%d) = %s;' % (ctype(t), o, '0' if zero else a[1].c) for o, t in lv))
                    else:
                        return '({ char* d_ = %s; char* s_ = %s; %s %s (void)0; })' % (a[0].c, a[1].c,
                            ' '.join('%s t%d_ = *(%s*)(s_+%d);' % (ctype(t), i, ctype(t), o) for i, (o, t) in enumerate(lv)),
                            ' '.join('*(%s*)(d_+%d) = t%d_;' % (ctype(t), o, i) for i, (o, t) in enumerate(lv)))
        if name.startswith('llvm_memcpy'): return 'vp_memcpy(%s, %s, %s)' % (a[0].c, a[1].c, a[2].c)
        if name.startswith('llvm_memmove'): return 'vp_memmove(%s, %s, %s)' % (a[0].c, a[1].c, a[2].c)
        if name.startswith('llvm_memset'): return 'vp_memset(%s, %s, %s)' % (a[0].c, a[1].c, a[2].c)
        if name.startswith('llvm_bswap_i16'): return '__builtin_bswap16(%s)' % a[0].c
        if name.startswith('llvm_bswap_i32'): return '__builtin_bswap32(%s)' % a[0].c
        if name.startswith('llvm_bswap_i64'): return '__builtin_bswap64(%s)' % a[0].c
        if name.startswith('llvm_trap'): return '__vp_trap()'
        if name.startswith('llvm_eh_typeid_for'): return '__vp_typeid(%s)' % a[0].c
        if name.startswith('llvm_umax') : return '(%s > %s ? %s : %s)' % (a[0].c, a[1].c, a[0].c, a[1].c)
        if name.startswith('llvm_umin') : return '(%s < %s ? %s : %s)' % (a[0].c, a[1].c, a[0].c, a[1].c)
        if name.startswith('llvm_smax') : return '(%s > %s ? %s : %s)' % (sx(a[0]), sx(a[1]), a[0].c, a[1].c)
        if name.startswith('llvm_smin') : return '(%s < %s ? %s : %s)' % (sx(a[0]), sx(a[1]), a[0].c, a[1].c)
        if name.startswith('llvm_abs') : return '(%s < 0 ? (%s)(0 - %s) : %s)' % (sx(a[0]), ctype(rt), a[0].c, a[0].c)
        if name.startswith('llvm_ctlz_i32'): return '(%s ? (uint32_t)__builtin_clz(%s) : 32u)' % (a[0].c, a[0].c)
        if name.startswith('llvm_ctlz_i64'): return '(%s ? (uint64_t)__builtin_clzll(%s) : 64u)' % (a[0].c, a[0].c)
        if name.startswith('llvm_cttz_i32'): return '(%s ? (uint32_t)__builtin_ctz(%s) : 32u)' % (a[0].c, a[0].c)
        if name.startswith('llvm_cttz_i64'): return '(%s ? (uint64_t)__builtin_ctzll(%s) : 64u)' % (a[0].c, a[0].c)
        if name.startswith('llvm_ctpop_i32'): return '((uint32_t)__builtin_popcount(%s))' % a[0].c
        if name.startswith('llvm_ctpop_i64'): return '((uint64_t)__builtin_popcountll(%s))' % a[0].c
        if name.startswith('llvm_fshl_i') or name.startswith('llvm_fshr_i'):
            bits = resolve(rt).bits; ct = cint(bits)
            if name.startswith('llvm_fshl_i'):
                return '((%s)(%s %% %d ? ((%s << (%s %% %d)) | (%s >> (%d - %s %% %d))) : %s))' % (ct, a[2].c, bits, a[0].c, a[2].c, bits, a[1].c, bits, a[2].c, bits, a[0].c)
            return '((%s)(%s %% %d ? ((%s << (%d - %s %% %d)) | (%s >> (%s %% %d))) : %s))' % (ct, a[2].c, bits, a[0].c, bits, a[2].c, bits, a[1].c, a[2].c, bits, a[1].c)
        if name.startswith('llvm_usub_sat'): return '(%s > %s ? (%s)(%s - %s) : 0)' % (a[0].c, a[1].c, ctype(rt), a[0].c, a[1].c)
        if name.startswith('llvm_round_f64'): return 'round(%s)' % a[0].c
        if name.startswith('llvm_log2_f64'): return 'log2(%s)' % a[0].c
        if name.startswith('llvm_fabs_f64'): return 'fabs(%s)' % a[0].c
        if name.startswith('llvm_stacksave'): return '((char*)0)'
        if name.startswith('llvm_stackrestore'): return None
        if name.startswith('llvm_prefetch'): return None
        if name.startswith('llvm_objectsize'): return '((%s)-1)' % ctype(rt)
        raise Exception('intrinsic ' + name)
    if name == 'vp_assert' and len(a) == 2:
        m = re.fullmatch(r'\(\(char\*\)&(\w+)\)', a[1].c)
        msg = STRCONST.get(m.group(1)) if m else None
        if msg is not None:
            txt = msg.rstrip(b'\0').decode('latin1')
            txt = re.sub(r'[^ -~]', '?', txt).replace('\\', '/').replace('"', "'")
            return 'VP_ASSERT(%s, "%s")' % (a[0].c, txt)
    if name in ('memcpy', 'memmove', 'memset') and len(a) == 3:
        return 'vp_%s(%s, %s, %s)' % (name, a[0].c, a[1].c, a[2].c)
    if name in LIBC:
        return '%s(%s)' % (name, ', '.join(x.c for x in a))
    if name and (name in M.funcs or name in M.decls):
        f = M.funcs.get(name) or M.decls.get(name)
        if len(f.args) == len(a) and not f.va:
            return '%s(%s)' % (name, ', '.join(x.c for x in a))
    # indirect or mismatched: cast
    ats = ', '.join(ctype(t) for t in argts) or 'void'
    fp = '((%s(*)(%s))%s)' % (ctype(rt), ats, callee if not name else '&' + name)
    return '%s(%s)' % (fp, ', '.join(x.c for x in a))

LIBC = {'memcpy', 'memmove', 'memset', 'malloc', 'free', 'memcmp', 'strlen', 'bcmp', 'memchr', 'strcmp', 'abort'}
PRELUDE = r'''
#define VP_UNIT 1
#include "vp_rt.h"
'''

def main():
    text = open(sys.argv[1]).read()
    parse_md(text)
    bodies = parse_module(text)
    for hdr, body in bodies:
        parse_fn_header(hdr, body)
    # re-evaluate nounwind now attrs are known
    # aliases first
    graw = []
    for ln in M_globals_raw:
        toks = tokenize(ln)
        p = P(toks)
        name = p.next()[1]; p.expect('=')
        while p.peek()[1] in LINKAGE: p.next()
        if p.peek()[1] in ('alias',):
            p.next(); t = p.type(); p.expect(','); t2 = p.type(); tgt = p.next()[1]
            M.aliases[mangle(name)] = mangle(tgt)
            continue
        graw.append((name, p))
    out = [PRELUDE]
    gdefs = []
    gdecls = []
    typeinfos = []
    ctors = [mangle('@' + c) for c in sys.argv[3].split(',') if c] if len(sys.argv) > 3 else []
    ext_globals = set()
    for name, p in graw:
        if name == '@llvm.global_ctors':
            raw = ' '.join(v for k, v in p.t)
            if not ctors: ctors = [mangle(x) for x in re.findall(r'void \( \) \* (@[^ ,]+)', raw)]
            continue
        if name in ('@llvm.used', '@llvm.compiler.used', '@llvm.global_dtors'): continue
        kind = p.next()[1]  # global / constant
        ext = False
        t = p.type()
        n = mangle(name)
        cty = layout_ctype(t)
        is_ext = any(v == 'external' for k, v in p.t[:p.i])
        if is_ext or p.eof() or p.peek()[1] == ',':
            gdecls.append('extern %s %s; /* external */' % (cty if not isinstance(resolve(t), OpaqueT) else 'char', n))
            ext_globals.add(n)
            continue
        LAST_STR[0] = None
        init = const_init(p, t)
        if LAST_STR[0] is not None and isinstance(resolve(t), ArrT): STRCONST[n] = LAST_STR[0]
        gdecls.append('%s%s %s;' % ('', cty, n))
        gdefs.append('%s%s %s = %s;' % ('const ' if kind == 'constant' and False else '', cty, n, init))
        if n.startswith('_ZTI'):
            r = resolve(t)
            typeinfos.append((n, len(r.fields) if isinstance(r, StructT) else 0))
        M.globals[n] = (kind, t)
    collect_vtables()
    fbuf = []
    failed = []
    for f in M.funcs.values():
        mark = len(fbuf)
        try:
            translate_fn(f, fbuf)
        except Exception as e:
            if __import__('os').environ.get('VP_TB'): __import__('traceback').print_exc()
            del fbuf[mark:]
            failed.append((f.name, str(e)[:200]))
            fbuf.append(fn_proto_named(f) + ' { __CPROVER_assert(0, "VP_UNTRANSLATED function reached: %s"); __CPROVER_assume(0); %s }' % (
                f.name, ('return %s;' % zero_of(f.ret)) if not isinstance(resolve(f.ret), VoidT) else ''))
    for nm, why in failed: sys.stderr.write('UNTRANSLATED %s: %s\n' % (nm, why))
    # struct decls
    sb = []
    done = set()
    # layout structs (ordered by creation; nested ones are created first by recursion)
    for key, (nm, body) in _lay.items():
        sb.append('%s { %s } __attribute__((packed));' % (nm, body))
    ab = []
    def emit_agg(nm, t):
        if nm in done: return
        for fld in t.fields:
            r = resolve(fld)
            if isinstance(r, StructT): emit_agg(agg_name(r), r)
            if isinstance(r, ArrT): emit_agg(agg_name(StructT([r.el] * r.n, False)), StructT([r.el] * r.n, False))
        done.add(nm)
        ab.append('struct %s { %s };' % (nm, ' '.join('%s f%d;' % (ctype(fld), i) for i, fld in enumerate(t.fields)) or 'char e;'))
    for key, (nm, t) in list(M.aggs.items()):
        emit_agg(nm, t)
    out += sb + ab
    # prototypes
    for f in list(M.decls.values()) + list(M.funcs.values()):
        if f.name.startswith('llvm_'): continue
        if f.name in LIBC: continue
        out.append(fn_proto(f) + ';')
    out += gdecls
    # exception runtime helpers needing typeinfo knowledge
    out.append('static char* __vp_ti_base(char* ti) {')
    for n, nf in typeinfos:
        if nf == 3:
            out.append('  if (ti == (char*)&%s) return %s.f2;' % (n, n))
    STDBASE = {'_ZTISt13runtime_error': '_ZTISt9exception', '_ZTISt11logic_error': '_ZTISt9exception', '_ZTISt12out_of_range': '_ZTISt11logic_error',
               '_ZTISt16invalid_argument': '_ZTISt11logic_error', '_ZTISt12length_error': '_ZTISt11logic_error', '_ZTISt9bad_alloc': '_ZTISt9exception',
               '_ZTISt8bad_cast': '_ZTISt9exception', '_ZTISt12domain_error': '_ZTISt11logic_error', '_ZTISt11range_error': '_ZTISt13runtime_error',
               '_ZTISt14overflow_error': '_ZTISt13runtime_error'}
    for k_, v_ in STDBASE.items():
        if k_ in ext_globals and v_ in ext_globals:
            out.append('  if (ti == (char*)&%s) return (char*)&%s;' % (k_, v_))
    out.append('  return 0; }')
    out.append('static int __vp_ti_match(char* thrown, char* want) { if (!want) return 1; for (int i = 0; i < 8 && thrown; ++i) { if (thrown == want) return 1; thrown = __vp_ti_base(thrown); } return 0; }')
    out.append('static int __vp_typeid(char* ti) {')
    for i, (n, nf) in enumerate(typeinfos):
        out.append('  if (ti == (char*)&%s) return %d;' % (n, i + 1))
    out.append('  return 9999; }')
    out.append('static void __vp_trap(void) { __CPROVER_assert(0, "llvm.trap"); __CPROVER_assume(0); }')
    out += gdefs
    out += fbuf
    out.append('void vp_run_ctors(void) { %s }' % ' '.join('%s();' % c for c in ctors if c in M.funcs))
    # C18: the mutable (non-constant) globals of this unit, as one byte snapshot
    mut = [(n, size_of(t)) for n, (kind, t) in M.globals.items() if kind == 'global' and not n.startswith(('_ZTV', '_ZTI', '_ZTS', 'llvm_')) and size_of(t) > 0]
    out.append('uint64_t vp_globals_size(void) { return %dULL; }' % sum(sz for _, sz in mut))
    body = []; off = 0
    for n, sz in mut:
        body.append('vp_memcpy(dst + %d, (char*)&%s, %d);' % (off, n, sz)); off += sz
    out.append('void vp_globals_snapshot(char* dst) { %s }' % ' '.join(body))
    open(sys.argv[2] + '.globals', 'w').write('\n'.join('%s %d' % x for x in mut) + '\n')
    open(sys.argv[2], 'w').write('\n'.join(out) + '\n')
    open(sys.argv[2] + '.funcs', 'w').write('\n'.join(M.funcs.keys()) + '\n')
    sys.stderr.write('functions: %d, globals: %d\n' % (len(M.funcs), len(M.globals)))

main()
