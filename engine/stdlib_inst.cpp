// libstdc++ keeps std::string's non-inline members in libstdc++.so (extern template).  Instantiate them here so that the
// translated units execute the real header code (bits/basic_string.tcc) instead of calling bodiless externals.
#include <string>
template class std::basic_string<char>;
